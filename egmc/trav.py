"""
Shared per-state evaluation for C06 (what is visited) and C07 (in which order).

For one graph state the full product start x universe x direction x unknown
mode x ff_via (x ff_result) is evaluated.  The neighbour relation used by the
oracles is the *real* helpers.neighbors (caching off), tabulated once per
(direction, unknown, ff_via) -- C06/C07 are stated relative to neighbors().
"""

import itertools
import signal

from edgegraph.structure import Vertex, Universe
from edgegraph.traversal import helpers, breadthfirst, depthfirst

from . import oracles
from .fixtures_mod import NB_FILTERS, RES_FILTERS, DIRS, UNKS


class NonTermination(Exception):
    pass


TRAVERSALS = {
    "bft": (breadthfirst.bft, breadthfirst.ibft, oracles.bfs_order),
    "dft_recursive": (depthfirst.dft_recursive, depthfirst.idft_recursive, oracles.dfs_pre_order),
    "dft_iterative": (depthfirst.dft_iterative, depthfirst.idft_iterative, oracles.dfs_stack_order),
}

_real_neighbors = helpers.neighbors
_budget = [0]


def _counting_neighbors(*a, **k):
    _budget[0] -= 1
    if _budget[0] < 0:
        raise NonTermination("neighbors() called more often than any terminating traversal can")
    return _real_neighbors(*a, **k)


def _alarm(signum, frame):
    raise NonTermination("wall-clock backstop")


def guarded(fn, limit, *a, **k):
    """Run a list-form traversal under the expansion budget."""
    _budget[0] = limit
    helpers.neighbors = _counting_neighbors
    try:
        return ("ret", fn(*a, **k))
    except NonTermination:
        return ("nonterm", None)
    except NotImplementedError:
        return ("exc", "NotImplementedError")
    except Exception as e:  # noqa: BLE001
        return ("exc", type(e).__name__)
    finally:
        helpers.neighbors = _real_neighbors


def guarded_gen(fn, limit, *a, **k):
    _budget[0] = limit
    helpers.neighbors = _counting_neighbors
    try:
        out = list(itertools.islice(fn(*a, **k), limit + 1))
        if len(out) > limit:
            return ("nonterm", None)
        return ("ret", out)
    except NonTermination:
        return ("nonterm", None)
    except NotImplementedError:
        return ("exc", "NotImplementedError")
    except Exception as e:  # noqa: BLE001
        return ("exc", type(e).__name__)
    finally:
        helpers.neighbors = _real_neighbors


def universes_for(w, cfg):
    """name -> (Universe or None, member index set).  Built once per state."""
    nv = len(w.v)
    out = {"none": (None, frozenset(range(nv)))}
    if cfg["universes"] == "none-only":
        return out
    if cfg["universes"] == "few":
        mid = nv // 2
        for s in (tuple(range(nv)), tuple(i for i in range(nv) if i != mid)):
            out["m" + "-".join(map(str, s))] = (Universe(vertices=[w.v[i] for i in s]), frozenset(s))
        return out
    if cfg["universes"] == "all-subsets":
        subsets = [s for n in range(1, nv + 1) for s in itertools.combinations(range(nv), n)]
    else:  # none / all / all-minus-one
        subsets = [tuple(range(nv))] + [tuple(i for i in range(nv) if i != k) for k in range(nv)]
    for s in subsets:
        out["m" + "".join(map(str, s))] = (Universe(vertices=[w.v[i] for i in s]), frozenset(s))
    return out


def configs(cfg):
    for dn in cfg["dirs"]:
        for un in cfg["unks"]:
            for vn in cfg["via"]:
                yield dn, un, vn


def idx(w, xs):
    return [w.vid(x) for x in xs]


def evaluate(spec, seq, w, cfg, mode, w_b=None):
    """
    mode "C06": list and generator forms vs reach set.
    mode "C07": list form (twice, and on the independently rebuilt world w_b) vs oracle order.
    Returns (evaluations, nontrivial, [(fingerprint, case)]).
    """
    Vertex.NEIGHBOR_CACHING = False
    nv = len(w.v)
    limit = 100 * (nv + len(w.l) + 1)
    unis = universes_for(w, cfg)
    unis_b = universes_for(w_b, cfg) if w_b is not None else None
    evals = nontriv = 0
    viols = []
    old = signal.signal(signal.SIGALRM, _alarm)
    signal.setitimer(signal.ITIMER_REAL, 60)
    try:
        for dn, un, vn in configs(cfg):
            d, u, via = DIRS[dn], UNKS[un], NB_FILTERS[vn]
            table = []
            for v in w.v:
                try:
                    table.append(("ret", _real_neighbors(v, direction_sensitive=d, unknown_handling=u, filterfunc=via)))
                except NotImplementedError:
                    table.append(("exc", None))
            res_names = cfg["res_with_via"] if vn != "none" else cfg["res"]
            for uname, (uni, members) in unis.items():
                starts = sorted(members)
                if cfg.get("starts") == "few":
                    starts = sorted({0, nv // 2, nv - 1} & set(members))
                if mode == "C06" and uni is not None and vn == "none":
                    # a start vertex outside the universe: whatever the call does (it is documented to raise
                    # ValueError), it must not hand back a listing that contains a non-member
                    for s in sorted(set(range(nv)) - set(members)):
                        for tname, (tlist, tgen, torder) in TRAVERSALS.items():
                            for form, fn in (("list", tlist), ("generator", tgen)):
                                evals += 1
                                got = (guarded if form == "list" else guarded_gen)(
                                    fn, limit, uni, w.v[s], direction_sensitive=d, unknown_handling=u)
                                if got[0] == "ret" and any(x not in members for x in idx(w, got[1])):
                                    viols.append((f"{tname}|dir={dn}|unknown={un}|via=none|result=none|universe=partial|"
                                                  f"start-outside-universe|{form}-form-lists-a-non-member",
                                                  [tname, s, uname, dn, un, vn, "outside-" + form]))
                                elif got[0] == "nonterm":
                                    viols.append((f"{tname}|dir={dn}|unknown={un}|via=none|result=none|universe=partial|"
                                                  f"start-outside-universe|non-termination",
                                                  [tname, s, uname, dn, un, vn, "outside-" + form]))
                for s in starts:
                    # reach closure through the table
                    R = [s]
                    raised = False
                    qi = 0
                    while qi < len(R):
                        x = R[qi]
                        qi += 1
                        if table[x][0] == "exc":
                            raised = True
                            break
                        for y in table[x][1]:
                            yi = w.vid(y)
                            if yi in members and yi not in R:
                                R.append(yi)
                    nbf = lambda x: table[w.vid(x)][1]      # noqa: E731
                    member = lambda x: w.vid(x) in members  # noqa: E731
                    for rn in res_names:
                        rf = RES_FILTERS[rn]
                        kw = dict(direction_sensitive=d, unknown_handling=u, ff_via=via, ff_result=rf)
                        for tname, (tlist, tgen, torder) in TRAVERSALS.items():
                            evals += 1
                            nontriv += len(R) > 1 or raised
                            case = [tname, s, uname, dn, un, vn, rn]
                            ukind = "none" if uni is None else ("all" if len(members) == nv else "partial")
                            tag = f"{tname}|dir={dn}|unknown={un}|via={vn}|result={rn}|universe={ukind}"
                            got = guarded(tlist, limit, uni, w.v[s], **kw)
                            bad = None
                            if got[0] == "nonterm":
                                bad = "non-termination"
                            elif raised:
                                if got != ("exc", "NotImplementedError"):
                                    bad = "did-not-raise-NotImplementedError" if got[0] == "ret" else f"raised-{got[1]}"
                            elif got[0] == "exc":
                                bad = f"raised-{got[1]}"
                            if bad:
                                if mode == "C06":
                                    viols.append((f"{tag}|{bad}", case))
                                continue
                            if raised:
                                if mode == "C06":
                                    g2 = guarded_gen(tgen, limit, uni, w.v[s], **kw)
                                    if g2 != ("exc", "NotImplementedError"):
                                        viols.append((f"{tag}|generator-form-did-not-raise", case))
                                continue
                            out = idx(w, got[1])
                            exp_set = [x for x in R if rf is None or rf(w.v[x])]
                            set_ok = (len(set(out)) == len(out) and sorted(out) == sorted(exp_set)
                                      and (not out or rf is not None or out[0] == s))
                            if mode == "C06":
                                if len(set(out)) != len(out):
                                    viols.append((f"{tag}|vertex-listed-twice", case))
                                elif rf is None and (not out or out[0] != s):
                                    viols.append((f"{tag}|does-not-start-with-start", case))
                                elif set(out) - set(R):
                                    extra = set(out) - set(R)
                                    k = "outside-universe-listed" if extra - set(members) else "unreachable-vertex-listed"
                                    viols.append((f"{tag}|{k}", case))
                                elif set(exp_set) - set(out):
                                    viols.append((f"{tag}|reachable-vertex-missing", case))
                                elif set(out) - set(exp_set):
                                    viols.append((f"{tag}|ff_result-rejected-vertex-listed", case))
                                g2 = guarded_gen(tgen, limit, uni, w.v[s], **kw)
                                if g2[0] != "ret" or idx(w, g2[1]) != out:
                                    viols.append((f"{tag}|generator-form-differs-from-list-form", case))
                            else:
                                if not set_ok:
                                    continue          # C06's matter
                                order = [x for x in idx(w, torder(w.v[s], nbf, member))
                                         if rf is None or rf(w.v[x])]
                                if out != order:
                                    viols.append((f"{tag}|order-differs-from-canonical", case))
                                elif tname == "bft" and rf is None:
                                    dist = oracles.bfs_layers(w.v[s], nbf, member)
                                    ds = [dist[id(w.v[x])] for x in out]
                                    if any(a > b for a, b in zip(ds, ds[1:])):
                                        viols.append((f"{tag}|hop-distance-decreases", case))
                                again = guarded(tlist, limit, uni, w.v[s], **kw)
                                if again[0] != "ret" or idx(w, again[1]) != out:
                                    viols.append((f"{tag}|repeated-call-differs", case))
                                if w_b is not None:
                                    ub = unis_b[uname][0]
                                    gb = guarded(tlist, limit, ub, w_b.v[s], **kw)
                                    if gb[0] != "ret" or idx(w_b, gb[1]) != out:
                                        viols.append((f"{tag}|rebuilt-graph-differs", case))
    finally:
        signal.setitimer(signal.ITIMER_REAL, 0)
        signal.signal(signal.SIGALRM, old)
    return evals, nontriv, viols


def _raising_filter(e, v):
    raise RuntimeError("filter fails")


def edit_leg(spec, seq, w, cfg):
    """
    C06 across a change of universe membership with neighbour caching ON: on a re-built world,
    traverse within a universe of all vertices, take one vertex out (from the universe side or from
    the vertex side), traverse again, put it back (from the other side), traverse again.  Every
    listing must be exactly the reach set (computed from the real neighbors() with caching off on
    the cold world) for the membership in force at that moment.
    Returns (evaluations, nontrivial, [(fingerprint, case)]).
    """
    from . import engine_g
    nv = len(w.v)
    limit = 100 * (nv + len(w.l) + 1)
    evals = nontriv = 0
    viols = []
    ks = list(range(nv)) if nv <= 5 else sorted({0, 1, nv // 2, nv - 1})
    un = "NBR"                                   # unknown link classes never raise here
    for dn in cfg["dirs"]:
        d, u = DIRS[dn], UNKS[un]
        Vertex.NEIGHBOR_CACHING = False
        table = [idx(w, _real_neighbors(v, direction_sensitive=d, unknown_handling=u)) for v in w.v]

        def reach(s, members):
            R = [s]
            for x in R:
                for y in table[x]:
                    if y in members and y not in R:
                        R.append(y)
            return set(R)

        for side in ("universe", "vertex"):
            w2, _ = engine_g.build(spec, seq, validate=False)
            Vertex.NEIGHBOR_CACHING = True
            uni = Universe(vertices=list(w2.v))
            # aborted traversals first: a filter that raises, and a generator form abandoned after its
            # first element -- neither may leave anything behind that a later traversal trips over
            for tname, (tlist, tgen, torder) in TRAVERSALS.items():
                for s in range(min(nv, 3)):
                    try:
                        tlist(uni, w2.v[s], direction_sensitive=d, unknown_handling=u, ff_via=_raising_filter)
                    except Exception:  # noqa: BLE001
                        pass
                    g = tgen(uni, w2.v[s], direction_sensitive=d, unknown_handling=u)
                    try:
                        next(g)
                    except Exception:  # noqa: BLE001
                        pass
                    del g
            for k in ks:
                for phase in ("before", "after-removal", "after-re-adding"):
                    if phase == "after-removal":
                        if side == "universe":
                            uni.remove_vertex(w2.v[k])
                        else:
                            w2.v[k].remove_from_universe(uni)
                    elif phase == "after-re-adding":
                        if side == "universe":
                            w2.v[k].add_to_universe(uni)
                        else:
                            uni.add_vertex(w2.v[k])
                    members = {w2.vid(x) for x in uni.vertices}
                    starts = sorted(members) if nv <= 5 else sorted({0, nv // 2, nv - 1} & members)
                    for s in starts:
                        exp = reach(s, members)
                        for tname, (tlist, tgen, torder) in TRAVERSALS.items():
                            evals += 1
                            nontriv += len(exp) > 1
                            got = guarded(tlist, limit, uni, w2.v[s], direction_sensitive=d, unknown_handling=u)
                            bad = None
                            if got[0] != "ret":
                                bad = "non-termination" if got[0] == "nonterm" else f"raised-{got[1]}"
                            else:
                                out = idx(w2, got[1])
                                if len(set(out)) != len(out):
                                    bad = "vertex-listed-twice"
                                elif set(out) - members:
                                    bad = "outside-universe-listed"
                                elif set(out) - exp:
                                    bad = "unreachable-vertex-listed"
                                elif exp - set(out):
                                    bad = "reachable-vertex-missing"
                            if bad:
                                viols.append((f"{tname}|dir={dn}|caching-on|{phase}-of-a-member-from-the-{side}-side|{bad}",
                                              ["edit", tname, dn, side, k, phase, s]))
    Vertex.NEIGHBOR_CACHING = False
    return evals, nontriv, viols


FULL = dict(universes="all-subsets", dirs=("FWD", "ANY", "BWD"), unks=("NON", "NBR", "ERR"),
            via=("none", "reject", "selv", "sell"), res=("none", "reject", "sel"), res_with_via=("none",))
REDUCED = dict(universes="all-minus-one", dirs=("FWD", "ANY", "BWD"), unks=("NBR", "ERR"),
               via=("none", "selv", "sell"), res=("none", "sel"), res_with_via=("none",))
LEAN = dict(universes="none-only", dirs=("FWD", "ANY", "BWD"), unks=("ERR",),
            via=("none",), res=("none",), res_with_via=("none",))
# second pass over the first space with falsy vertices
FALSY = dict(universes="all-minus-one", dirs=("FWD", "ANY"), unks=("NBR",),
             via=("none", "selv"), res=("none", "sel"), res_with_via=("none",))
# for the graph families (larger graphs): few universes, few starts
FAMILY = dict(universes="few", starts="few", dirs=("FWD", "ANY", "BWD"), unks=("ERR",),
              via=("none", "selv"), res=("none", "sel"), res_with_via=("none",))
