"""
Engine H -- explicit-state breadth-first exploration of operation histories on
real objects.

A *system* describes a pool of real edgegraph objects and a finite menu of
public calls on them.  A state is the canonical form of the pool; a state is
represented by the (shortest known) history that reaches it and is re-built
from scratch by replaying that history whenever it is expanded.  Every
transition is a real call on (a deep copy of) the real objects, checked by the
system's oracle; successors are deduplicated on a digest of the canonical
form.  The loop runs until the frontier is empty (fixpoint) or a stated cap is
hit; the caps and what was completed below them are reported.

The system object must provide

    initial()                -> world (fresh real objects; resets library globals)
    ops(world)               -> list of ops (tuples of JSON-able atoms), simplest first
    apply(world, op)         -> observation (JSON-able) or SKIP
    canon(world)             -> canonical form (hashable / repr-able)
    check(pre, op, post, obs)-> list of (fingerprint, detail) violations of the
                                property on this transition (state invariants are
                                evaluated on `post` here too)
and may provide
    within_bounds(world)     -> False to discard a successor that exceeds the pool bound
    nontrivial(pre, op, post, obs) -> bool, counts towards distinct_nontrivial
    rebuild = False          -> successors are made by deep-copying the pre-state instead of replaying
                                the history from scratch (the default is to replay: deepcopy goes
                                through __reduce_ex__/__getstate__ and loses identity with class-level
                                objects, so it is not trusted unless a system opts in)
    copy(world)              -> an independent copy (default copy.deepcopy), used when rebuild is False
    init_check(world)        -> violations in the initial state
"""

import copy
import multiprocessing
import os
import time
import collections

from . import canon as _canon
from .report import HarnessError

SKIP = ("__skip__",)


def _new_item():
    from .structure import new_item
    new_item()

# replays whose state differed from the recorded one, over all explorations of this process
MISMATCHES = {"count": 0, "examples": []}
_SYS = None          # set before the worker pool is forked
_SEED = 0
_CHECK_ONLY = False  # final level of a depth-bounded run: evaluate state invariants, do not expand


EARLY_STOP_S = float(os.environ.get("EGMC_EARLY_STOP_S", "150"))


def build(system, hist):
    # class-level library state is reset first: a world replayed from its history must not depend on
    # what ran before in this process (the objects of any world built earlier stay usable for
    # observation; only their cache-statistics registration is forgotten)
    _new_item()
    w = system.initial()
    for op in hist:
        r = system.apply(w, op)
        if r is SKIP or r == SKIP:
            raise HarnessError(f"history contains a skipped op {op!r}")
    return w


def _digest(system, w):
    return _canon.digest(system.canon(w))


def _expand_chunk(entries):
    system = _SYS
    succ = {}
    viols = {}
    ntrans = 0
    nvalid = 0
    nnontriv = 0
    outcomes = collections.Counter()
    copier = getattr(system, "copy", copy.deepcopy)
    nontrivial = getattr(system, "nontrivial", None)
    within = getattr(system, "within_bounds", None)
    prune = getattr(system, "prune", None)
    rebuild = getattr(system, "rebuild", True)
    state_check = getattr(system, "state_check", None)
    npruned = 0
    nmismatch = 0
    mismatch_examples = []
    for hist, dg in entries:
        _new_item()
        w0 = build(system, hist)
        if _digest(system, w0) != dg:
            # Replaying the history did not give the state recorded when it was discovered: the
            # library (or the harness) is not a deterministic function of the history.  The replayed
            # world is still a genuinely reachable state, so exploration continues from it; the
            # mismatch is counted and, unless the run reports a violation anyway, ends it with exit 2.
            nmismatch += 1
            if len(mismatch_examples) < 3:
                mismatch_examples.append(list(hist))
        nvalid += 1
        if state_check is not None and hist:
            # state invariant: evaluated exactly once per state, when the state is expanded
            # (the parent has deduplicated it globally by then)
            pre = build(system, hist[:-1])
            w0 = build(system, hist)
            system.current_history = hist         # lets the check re-build further independent copies
            bad = state_check(pre, hist[-1], w0, None)
            if bad:
                for fp, detail in bad:
                    e = viols.get(fp)
                    if e is None:
                        viols[fp] = [1, {"history": list(hist), "detail": detail}]
                    else:
                        e[0] += 1
                continue          # a violating state is not expanded
            w0 = build(system, hist)      # the check may have touched library globals
        if _CHECK_ONLY:
            continue
        ops = list(system.ops(w0))
        system.current_history = hist             # lets a transition check re-build the pre-state
        if ops and _SEED:
            k = _SEED % len(ops)
            ops = ops[k:] + ops[:k]
        for op in ops:
            if rebuild:
                w = build(system, hist)     # worlds that cannot be deep-copied (classes, metaclass state)
            else:
                w = copier(w0)
            obs = system.apply(w, op)
            if obs is SKIP or obs == SKIP:
                continue
            if within is not None and not within(w):
                continue
            ntrans += 1
            outcomes[(op[0], repr(obs)[:60])] += 1
            d = _digest(system, w)        # before the check: a check may re-build worlds (library globals)
            bad = system.check(w0, op, w, obs)
            if bad:
                for fp, detail in bad:
                    e = viols.get(fp)
                    if e is None:
                        viols[fp] = [1, {"history": list(hist) + [op], "detail": detail}]
                    else:
                        e[0] += 1
                continue          # states behind a violating transition are not expanded
            if prune is not None and prune(w0, op, w, obs):
                npruned += 1      # assume/guarantee: another property's violation, not expanded
                continue
            if nontrivial is not None and nontrivial(w0, op, w, obs):
                nnontriv += 1
            if d != dg and d not in succ:
                succ[d] = hist + (op,)
    if rebuild:
        nvalid += ntrans          # every transition was executed on a world replayed from scratch
    return succ, viols, ntrans, nvalid, nnontriv, outcomes, npruned, nmismatch, mismatch_examples


class Result:
    pass


def explore(system, *, seed=0, workers=None, max_states=None, time_cap=None, log=None, collect=False,
            max_depth=None):
    """
    Run the BFS to fixpoint (or to a cap).  Returns a Result with measured counts.
    max_depth: explore every history of at most that many ops from the initial state (used for the
    'pumped' pools, whose initial state is already large); states at that depth still get their
    state invariant evaluated, but are not expanded.  The result is then exhaustive up to the depth,
    not a fixpoint.
    """
    global _SYS, _SEED, _CHECK_ONLY
    _SYS = system
    _SEED = seed
    _CHECK_ONLY = False
    workers = workers or int(os.environ.get("VERIF_WORKERS", os.cpu_count() or 1))
    if time_cap is None and os.environ.get("EGMC_POOL_CAP_S"):
        time_cap = float(os.environ["EGMC_POOL_CAP_S"])      # per-pool budget (set for the thorough tier)
    t0 = time.time()
    if os.environ.get("EGMC_DEADLINE"):
        # whole-run budget (set by main): never explore past it, whatever the per-pool cap says
        left = max(1.0, float(os.environ["EGMC_DEADLINE"]) - t0)
        time_cap = left if time_cap is None else min(time_cap, left)
    res = Result()
    res.viols = {}
    w0 = system.initial()
    d0 = _digest(system, w0)
    seen = {d0}
    frontier = [((), d0)]
    res.transitions = 0
    res.validated = 0
    res.nontrivial = 0
    res.pruned = 0
    res.depth = 0
    res.exhaustive = True
    res.cap = None
    res.outcomes = collections.Counter()
    res.levels = []
    res.sample_histories = [[]]
    res.all_histories = [()]
    ic = getattr(system, "init_check", None)
    if ic is not None:
        for fp, detail in ic(w0):
            res.viols[fp] = [1, {"history": [], "detail": detail}]
    pool = None
    intern = {}
    try:
        res.fixpoint = True
        while frontier:
            if max_depth is not None and res.depth >= max_depth:
                res.fixpoint = False
                if getattr(system, "state_check", None) is None:
                    break
                _CHECK_ONLY = True       # one more pass: state invariants of the last level only
                if pool is not None:     # workers must see the flag: fork a fresh pool
                    pool.terminate()
                    pool.join()
                    pool = None
            if time_cap is not None and time.time() - t0 > time_cap:
                res.exhaustive = False
                res.cap = f"time cap {time_cap}s hit with {len(frontier)} states of depth {res.depth} unexpanded"
                break
            if res.viols and time.time() - t0 > EARLY_STOP_S:
                # violations are already in hand and the pool is taking long (a faulty library often has a
                # much larger, or unbounded, state space): report now rather than at the deadline
                res.exhaustive = False
                res.cap = (f"stopped after {EARLY_STOP_S}s with violations found; {len(frontier)} states of "
                           f"depth {res.depth} unexpanded")
                break
            if max_states is not None and len(seen) > max_states:
                res.exhaustive = False
                res.cap = f"state cap {max_states} hit with {len(frontier)} states of depth {res.depth} unexpanded"
                break
            res.levels.append(len(frontier))
            heavy = getattr(system, "heavy_states", False)     # expensive per-state checks: shard finely
            if len(frontier) < (2 if heavy else 24) or workers == 1:
                # in-process, in slices: the time cap is looked at after every slice
                step = 1 if heavy else 50
                results = (_expand_chunk(frontier[i:i + step]) for i in range(0, len(frontier), step))
            else:
                if pool is None:
                    pool = multiprocessing.get_context("fork").Pool(workers)
                n = 1 if heavy else max(1, min(200, len(frontier) // (workers * 4) or 1))
                chunks = [frontier[i:i + n] for i in range(0, len(frontier), n)]
                results = pool.imap_unordered(_expand_chunk, chunks)
            nxt = []
            for succ, viols, ntrans, nvalid, nnontriv, outcomes, npruned, nmis, mis_ex in results:
                if nmis:
                    MISMATCHES["count"] += nmis
                    MISMATCHES["examples"] = (MISMATCHES["examples"] + mis_ex)[:3]
                over = time_cap is not None and time.time() - t0 > time_cap
                early = bool(res.viols or viols) and time.time() - t0 > EARLY_STOP_S
                if (over or early) and res.exhaustive:
                    res.exhaustive = False
                    res.cap = ((f"time cap {time_cap}s hit" if over else
                                f"stopped after {EARLY_STOP_S}s with violations found") +
                               f" while expanding depth {res.depth} "
                               f"({len(frontier)} states in that level; levels below it are complete)")
                    for fp, (n, rec) in viols.items():
                        res.viols.setdefault(fp, [n, rec])
                    if pool is not None:
                        pool.terminate()
                        pool.join()
                        pool = None
                    break
                res.pruned += npruned
                res.transitions += ntrans
                res.validated += nvalid
                res.nontrivial += nnontriv
                res.outcomes.update(outcomes)
                for fp, (n, rec) in viols.items():
                    e = res.viols.get(fp)
                    if e is None:
                        res.viols[fp] = [n, rec]
                    else:
                        e[0] += n
                        if len(rec["history"]) < len(e[1]["history"]):
                            e[1] = rec
                for d, h in succ.items():
                    if d not in seen:
                        seen.add(d)
                        h = tuple(intern.setdefault(o, o) for o in h)
                        nxt.append((h, d))
                        if collect:
                            res.all_histories.append(h)
            if not res.exhaustive or _CHECK_ONLY:
                break
            # deterministic order of the next level irrespective of worker scheduling
            nxt.sort(key=lambda e: e[1])
            frontier = nxt
            if frontier:
                res.depth += 1
                res.sample_histories.append(list(frontier[len(frontier) // 2][0]))
            if log:
                log(f"  depth {res.depth}: states={len(seen)} transitions={res.transitions} "
                    f"frontier={len(frontier)} t={time.time() - t0:.1f}s")
    finally:
        if pool is not None:
            pool.terminate()
            pool.join()
    _CHECK_ONLY = False
    res.states = len(seen)
    res.max_depth_bound = max_depth
    res.wall = time.time() - t0
    return res


def coverage_from(res, rule, extra=None):
    cov = {
        "states": res.states,
        "transitions": res.transitions,
        "traces_validated_against_impl": res.validated,
        "evaluations": res.transitions,
        "distinct_nontrivial": res.nontrivial,
        "rule": rule,
        "exhaustive": res.exhaustive,
        "fixpoint": res.exhaustive,
        "max_depth": res.depth,
        "level_sizes": res.levels,
        "distinct_observed_outcomes": len(res.outcomes),
        "samples": [{"history": h} for h in res.sample_histories[-6:]],
        "transitions_pruned_other_property": res.pruned,
    }
    if res.cap:
        cov["cap_hit"] = res.cap
    if extra:
        cov.update(extra)
    return cov
