"""
Violation bookkeeping, replay artefacts, known findings, evidence files.

A check collects `Violation`s (fingerprint + replayable record).  At the end
`Report.finish()`:
  * re-executes every reported example without the explorer (see finish()),
  * writes one replay file per distinct fingerprint (first = shortest example),
  * matches fingerprints against /verif/known_findings.json ("open" entries):
    a match prints `KNOWN-FINDING: property=<id> ...` and does not fail the run,
    anything else prints `VIOLATION property=<id> replay=<path>`,
  * writes /verif/evidence/<id>.json,
  * returns the exit code (0 / 1).
The known-findings file is read only, never written at run time.
"""

import hashlib
import json
import os
import sys
import time

ROOT = os.path.dirname(os.path.dirname(os.path.abspath(__file__)))
# the two overrides exist for runs against scratch copies (mutants/, seeded/), which must not
# overwrite the evidence of the real tree
EVID_DIR = os.environ.get("EGMC_EVIDENCE_DIR") or os.path.join(ROOT, "evidence")
REPLAY_DIR = os.environ.get("EGMC_REPLAY_DIR") or os.path.join(ROOT, "replays")
KNOWN = os.path.join(ROOT, "known_findings.json")


class HarnessError(Exception):
    """Something is wrong with the machinery (not with edgegraph): exit 2."""


def jsonable(x):
    if isinstance(x, (str, int, float, bool)) or x is None:
        return x
    if isinstance(x, (list, tuple)):
        return [jsonable(e) for e in x]
    if isinstance(x, (set, frozenset)):
        return sorted((jsonable(e) for e in x), key=repr)
    if isinstance(x, dict):
        return {str(k): jsonable(v) for k, v in x.items()}
    if isinstance(x, bytes):
        return x.hex()
    return repr(x)


def load_known():
    if not os.path.exists(KNOWN):
        return {"open": [], "fixed": []}
    with open(KNOWN) as f:
        return json.load(f)


class Report:
    def __init__(self, prop, tier, seed, level="model_checking"):
        self.prop = prop
        self.tier = tier
        self.seed = seed
        self.level = level
        self.t0 = time.time()
        self.viol = {}        # fingerprint -> {"count": n, "record": first record}
        self.coverage = {}
        self.assumptions = []
        self.samples = []

    # ---------------------------------------------------------------- violations
    def add(self, fingerprint, record, count=1):
        """Register a violation.  `record` must be replayable by props.<id>.replay()."""
        e = self.viol.get(fingerprint)
        if e is None:
            self.viol[fingerprint] = {"count": count, "record": record}
        else:
            e["count"] += count
            # keep the shortest example
            if _size(record) < _size(e["record"]):
                e["record"] = record

    def merge(self, viols):
        """viols: iterable of (fingerprint, record, count)."""
        for fp, rec, n in viols:
            self.add(fp, rec, n)

    # ---------------------------------------------------------------- finishing
    def finish(self, confirm=None, min_repro=1, tries=5):
        """
        confirm: callable(record) -> bool; re-executes the record without the
        explorer.  A violation is only reported if it reproduces twice.
        """
        known = load_known()
        import re
        open_exact = {
            (k["property"], k["fingerprint"]): k for k in known.get("open", []) if "fingerprint" in k
        }
        open_regex = [(k["property"], re.compile(k["fingerprint_regex"]), k)
                      for k in known.get("open", []) if "fingerprint_regex" in k]

        def match_known(prop, fp):
            k = open_exact.get((prop, fp))
            if k is not None:
                return k
            for p_, rx, k in open_regex:
                if p_ == prop and rx.fullmatch(fp):
                    return k
            return None
        lines = []
        known_groups = {}
        unreproduced = []
        n_new = 0
        n_known = 0
        os.makedirs(REPLAY_DIR, exist_ok=True)
        for fp in sorted(self.viol):
            e = self.viol[fp]
            rec = dict(e["record"])
            rec["property"] = self.prop
            rec["fingerprint"] = fp
            if confirm is not None:
                # independent re-executions without the explorer: stop after two reproductions;
                # a violation that shows in the exploration and in at least `min_repro` of up to
                # `tries` replays is reported (library behaviour that depends on id()/hash order
                # -- itself a defect for the ordered/deterministic properties -- reproduces only
                # intermittently); one that never reproduces is a harness error
                rs = []
                for _ in range(tries):
                    rs.append(bool(confirm(rec)))
                    if sum(rs) >= 2:
                        break
                if sum(rs) < min_repro:
                    # not reproducible from a fresh state: never reported as a violation.  Kept
                    # aside; if nothing else reproduces either, the run ends as a harness error
                    # (unowned nondeterminism or state leaking between executions).
                    unreproduced.append((fp, rec, rs))
                    continue
                rec["replays_reproduced"] = f"{sum(rs)}/{len(rs)}"
            h = hashlib.blake2b(fp.encode(), digest_size=5).hexdigest()
            path = os.path.join(REPLAY_DIR, f"{self.prop}-{h}.json")
            with open(path, "w") as f:
                json.dump(jsonable(rec), f, indent=1)
            k = match_known(self.prop, fp)
            if k is not None:
                n_known += 1
                g = known_groups.setdefault(id(k), [k, 0, 0, path])
                g[1] += 1
                g[2] += e["count"]
            else:
                n_new += 1
                lines.append(f"VIOLATION property={self.prop} replay={path}")
                lines.append(f"  fingerprint: {fp}  (x{e['count']})")
        from . import engine_h as _eh
        if _eh.MISMATCHES["count"]:
            self.coverage["replay_state_mismatches"] = _eh.MISMATCHES["count"]
            print(f"NON-DETERMINISTIC property={self.prop} {_eh.MISMATCHES['count']} histories replayed to a different "
                  f"state than the one recorded for them, e.g. {json.dumps(jsonable(_eh.MISMATCHES['examples'][:1]))[:400]}")
            if not n_new and not n_known:
                raise HarnessError(
                    f"{_eh.MISMATCHES['count']} histories did not replay to the recorded state and no violation "
                    "was found: the library or the harness is not a deterministic function of the history")
        for k, nfp, ncases, path in known_groups.values():
            lines.append(f"KNOWN-FINDING: property={self.prop} {k.get('input', '')} -- {k.get('what', '')[:300]} "
                         f"({nfp} fingerprint(s), {ncases} case(s); e.g. replay={path})")
        if unreproduced:
            self.coverage["unreproduced_fingerprints"] = [u[0] for u in unreproduced]
            for fp, rec, rs in unreproduced:
                print(f"NOT-REPRODUCED property={self.prop} fingerprint={fp} replays={rs} "
                      f"record={json.dumps(jsonable(rec))[:600]}")
            if not n_new and not n_known:
                raise HarnessError(
                    f"{len(unreproduced)} violation(s) of {self.prop} seen during exploration did not "
                    "reproduce from a fresh state and nothing else was found: "
                    + "; ".join(u[0] for u in unreproduced)[:1500])
        self.write_evidence(n_new, n_known)
        for ln in lines:
            print(ln)
        cov = self.coverage
        print(
            f"[{self.prop} {self.tier}] "
            + " ".join(
                f"{k}={cov[k]}"
                for k in (
                    "states", "transitions", "evaluations", "distinct_nontrivial",
                    "traces_validated_against_impl", "exhaustive",
                )
                if k in cov
            )
            + f" violations={n_new} known={n_known} wall={time.time() - self.t0:.1f}s"
        )
        sys.stdout.flush()
        return 1 if n_new else 0

    def write_evidence(self, n_new, n_known):
        cov = dict(self.coverage)
        if self.samples and "samples" not in cov:
            cov["samples"] = self.samples
        cov["samples"] = jsonable(cov.get("samples", []))[:12]
        cov["distinct_violation_fingerprints"] = sorted(self.viol)
        cov["known_findings_matched"] = n_known
        ev = {
            "property_id": self.prop,
            "tier": self.tier,
            "seed": self.seed,
            "level": self.level,
            "coverage": jsonable(cov),
            "assumptions": self.assumptions,
            "wall_s": round(time.time() - self.t0, 3),
            "violations": n_new,
        }
        check_evidence(ev)
        os.makedirs(EVID_DIR, exist_ok=True)
        tmp = os.path.join(EVID_DIR, f".{self.prop}.json.tmp")
        with open(tmp, "w") as f:
            json.dump(ev, f, indent=1, sort_keys=True)
        os.replace(tmp, os.path.join(EVID_DIR, f"{self.prop}.json"))
        if self.tier == "thorough":
            # evidence/<id>.json is overwritten by the next quick run; the record of the last
            # thorough run is kept next to it
            keep = EVID_DIR.rstrip("/") + "_thorough"
            os.makedirs(keep, exist_ok=True)
            with open(os.path.join(keep, f"{self.prop}.json"), "w") as f:
                json.dump(ev, f, indent=1, sort_keys=True)


def _size(rec):
    return len(json.dumps(jsonable(rec)))


def check_evidence(ev):
    """Minimal structural self-check (full jsonschema validation is in `selftest`)."""
    for k in ("property_id", "tier", "seed", "level", "coverage", "wall_s"):
        if k not in ev:
            raise HarnessError(f"evidence lacks {k}")
    cov = ev["coverage"]
    if ev["level"] == "model_checking":
        for k in ("states", "transitions", "traces_validated_against_impl", "samples"):
            if k not in cov:
                raise HarnessError(f"model_checking evidence lacks coverage.{k}")
        if cov["states"] < 1 or cov["transitions"] < 1 or not cov["samples"]:
            raise HarnessError("model_checking evidence: empty exploration")
    else:
        for k in ("evaluations", "distinct_nontrivial", "rule", "samples"):
            if k not in cov:
                raise HarnessError(f"evidence lacks coverage.{k}")
        if cov["evaluations"] < 1 or cov["distinct_nontrivial"] < 2 or not cov["samples"]:
            raise HarnessError("evidence: empty exploration")
