"""egmc -- edgegraph model checker: bounded exhaustive exploration of the real code."""
