"""
C14 -- PlantUML source shows each member vertex and each internal link once, oriented.

Engine G: graph states over vertex classes {Vertex, VA(Vertex), VB(VA)} and
link classes {D, U, Ds, Us} x every membership list x option tables; the
produced text is parsed back: declaration lines vs members, relation lines (as a
multiset) vs links.
"""

import collections
import itertools
import re

from edgegraph.structure import Vertex, Universe, DirectedEdge, UnDirectedEdge, TwoEndedLink
from edgegraph.output import plantuml

from .. import engine_g
from ..fixtures_mod import VA, VB, SubDirected, SubUndirected, OtherTwoEnded
from ..report import Report

PROP = "C14"

SPACES = {
    "quick": [dict(nv=3, maxl=2, classes=("D", "U", "Ds", "Us")),
              dict(nv=3, maxl=3, minl=3, classes=("D", "U", "Ds")),
              # four members, four links (diamonds, squares, ...): pairs i < j only
              dict(nv=4, maxl=4, minl=4, classes=("D",), pairs="upper", self_loops=False),
              dict(nv=3, maxl=2, classes=("D", "U"), twin=True)],      # the last vertex carries the first one's uid
    "thorough": [dict(nv=3, maxl=3, classes=("D", "U", "Ds")),
                 dict(nv=3, maxl=2, classes=("D", "U", "Ds", "Us", "O")),
                 dict(nv=4, maxl=2, classes=("D", "Us")),
                 dict(nv=3, maxl=2, classes=("D", "U", "Ds"), mutations=True),
                 dict(nv=3, maxl=4, minl=4, classes=("D", "Us")),
                 dict(nv=2, maxl=6, minl=4, classes=("D", "U"))],
}
SPACES["quick"] += engine_g.family_specs(list(range(4, 13)) + [16, 17])
SPACES["thorough"] += engine_g.family_specs(list(range(4, 13)) + [16, 17, 32, 33, 64, 65])


class _Cycle(tuple):
    """class assignment for any number of vertices (cycles through the given classes)"""

    def __getitem__(self, i):
        if isinstance(i, slice):
            n = i.stop if i.stop is not None else len(self)
            return [tuple.__getitem__(self, k % len(self)) for k in range(n)]
        return tuple.__getitem__(self, i % len(self))


VCLS = {"plain": _Cycle((Vertex,)), "mixed": _Cycle((Vertex, VA, VB, VA))}


def options(name):
    """fresh option table per call (the renderer compiles show_attrs in place)"""
    if name == "T1":
        return {
            "skinparams": {"dpi": "300"},
            Vertex: {"type": "object", "show_attrs": ["^i$"], "title_format": "$id",
                     "stereotype_skinparams": {"BackgroundColor": "White"}},
            DirectedEdge: {"v1side": "", "v2side": ">"},
            UnDirectedEdge: {"v1side": "", "v2side": ""},
            TwoEndedLink: {"v1side": "o", "v2side": "o"},
        }
    if name == "T3":
        # a class whose declaration is written by a user function (same shape as the stock one,
        # so it parses back); VA falls back to Vertex, VB has its own entry
        return {
            Vertex: {"type": "object", "show_attrs": ["^i$"], "title_format": "v{i}"},
            VB: {"type": "map", "show_attrs": ["^i$"], "title_format": "b{i}", "user_render_func": _user_render},
            DirectedEdge: {"v1side": "", "v2side": ">"},
            UnDirectedEdge: {"v1side": "", "v2side": ""},
            SubUndirected: {"v1side": "#", "v2side": "#"},
            TwoEndedLink: {"v1side": "+", "v2side": ""},
        }
    return {
        Vertex: {"type": "object", "show_attrs": ["^i$"], "title_format": "v{i}"},
        VA: {"type": "class", "show_attrs": ["^i$"], "title_format": "a{i}"},
        DirectedEdge: {"v1side": "", "v2side": ">"},
        UnDirectedEdge: {"v1side": "", "v2side": ""},
        SubDirected: {"v1side": "<", "v2side": "*"},
        TwoEndedLink: {"v1side": "x", "v2side": ""},
    }


USER_CALLS = []


def _user_render(vertex, options):
    USER_CALLS.append(vertex)
    return f"map b{vertex.i} <<{type(vertex).__name__}>> {{\n}}\n"


def nearest(cls, table):
    for c in cls.__mro__:
        if c in table:
            return table[c]
    raise KeyError(cls)


def title(v, table):
    o = nearest(type(v), table)
    if o["title_format"] == "$id":
        return hex(id(v))
    return o["title_format"].format(i=v.i)


TABLES = ("T1", "T2", "T3")
DECL = re.compile(r"^(\w+) (\S+) <<(\w+)>> \{$")
REL = re.compile(r"^(\S+) (\S*)--(\S*) (\S+)$")


def member_lists(nv):
    if nv > 4:
        mid = nv // 2
        return [tuple(range(nv)), tuple(i for i in range(nv) if i != mid), tuple(range(0, nv, 2)),
                tuple(reversed(range(nv)))]
    out = [()]
    for n in range(1, nv + 1):
        out += list(itertools.combinations(range(nv), n))
    out.append(tuple(reversed(range(nv))))
    return out


def judge(w, members, tname):
    uni = Universe(vertices=[w.v[i] for i in members])
    mem = [w.v[i] for i in members]
    table = options(tname)
    if tname == "T2" and members:
        # two renderings that are rejected first (a title format naming an attribute the VB vertices lack:
        # KeyError part-way through the vertices; an option table without any link class: ValueError after
        # all vertices) -- a failed rendering must not spoil the valid one that follows
        for broken in (
            {Vertex: {"type": "object", "show_attrs": ["^i$"], "title_format": "p{i}"},
             VB: {"type": "object", "show_attrs": ["^i$"], "title_format": "q{nosuch}"},
             DirectedEdge: {"v1side": "", "v2side": ">"}, UnDirectedEdge: {"v1side": "", "v2side": ""},
             TwoEndedLink: {"v1side": "", "v2side": ""}},
            {Vertex: {"type": "object", "show_attrs": ["^i$"], "title_format": "r{i}"}},
        ):
            try:
                plantuml.render_to_plantuml_src(uni, broken)
            except Exception:  # noqa: BLE001
                pass
    del USER_CALLS[:]
    try:
        out = plantuml.render_to_plantuml_src(uni, options(tname))
    except Exception as e:  # noqa: BLE001
        return f"raised-{type(e).__name__}", None
    if tname == "T3" and sorted(map(id, USER_CALLS)) != sorted(id(v) for v in mem if isinstance(v, VB)):
        return "user_render_func-not-called-once-per-member-of-its-class", out
    if not members:
        return (None if out is None else "empty-universe-not-None"), out
    if not isinstance(out, str):
        return f"returned-{type(out).__name__}", out
    if not out.startswith("@startuml\n") or not out.rstrip("\n").endswith("@enduml"):
        return "not-between-startuml-and-enduml", out
    decls = collections.Counter()
    rels = collections.Counter()
    for line in out.split("\n"):
        m = DECL.match(line)
        if m:
            decls[m.groups()] += 1
            continue
        m = REL.match(line)
        if m:
            rels[m.groups()] += 1
    exp_decls = collections.Counter(
        (nearest(type(v), table)["type"], title(v, table), type(v).__name__) for v in mem)
    if decls != exp_decls:
        if sum(decls.values()) > len(mem):
            return "member-declared-more-than-once-or-non-member-declared", out
        if sum(decls.values()) < len(mem):
            return "member-not-declared", out
        return "declaration-title-or-type", out
    memids = {id(v) for v in mem}
    internal = collections.Counter()
    boundary = collections.Counter()
    seen = set()
    for v in mem:
        for l in v.links:
            if id(l) in seen:
                continue
            seen.add(id(l))
            p, q = l.vertices
            o = nearest(type(l), table)
            key = (title(p, table), o["v1side"], o["v2side"], title(q, table))
            if id(p) in memids and id(q) in memids:
                internal[key] += 1
            else:
                boundary[key] += 1
    missing = internal - rels
    if missing:
        # is it there in the other orientation / with other arrow ends?
        for (t1, s1, s2, t2), n in missing.items():
            if rels.get((t2, s1, s2, t1), 0) > internal.get((t2, s1, s2, t1), 0):
                return "relation-orientation", out
            if any(k[0] == t1 and k[3] == t2 for k in rels):
                return "relation-arrow-ends", out
            if any(k[0] == t2 and k[3] == t1 for k in rels):
                return "relation-orientation-and-arrow-ends", out
        return "internal-link-missing", out
    rest = rels - internal
    extra = rest - boundary
    if extra:
        if any(k in internal for k in extra):
            return "internal-link-more-than-once", out
        return "relation-for-no-existing-link", out
    return None, out


def per_state(spec, seq, w0):
    Vertex.NEIGHBOR_CACHING = False
    evals = nontriv = 0
    viols = []
    sq = [list(o) for o in seq]
    nv = spec["nv"]
    for vname, classes in VCLS.items():
        spec2 = dict(spec, vclasses=list(classes[:nv]))
        w, _ = engine_g.build(spec2, seq, validate=False)
        for members in member_lists(nv):
            for tname in TABLES:
                evals += 1
                nontriv += bool(members) and bool(w.l)
                bad, out = judge(w, members, tname)
                if bad:
                    mk = "empty" if not members else ("all" if len(members) == nv else "partial")
                    fp = f"plantuml|vertexclasses={vname}|members={mk}|options={tname}|{bad}"
                    viols.append((fp, {"seq": sq, "space": _plain(spec), "case": [vname, list(members), tname]}))
    return evals, nontriv, viols, None


def _plain(spec):
    return {k: (list(v) if isinstance(v, tuple) else v) for k, v in spec.items() if k not in ("vclasses", "explicit")}


def replay_single(rec, verbose=False):
    spec = dict(rec["space"])
    vname, members, tname = rec["case"]
    spec["vclasses"] = list(VCLS[vname][:spec["nv"]])
    w, ok = engine_g.build(spec, [tuple(o) for o in rec["seq"]], validate=False)
    Vertex.NEIGHBOR_CACHING = False
    bad, out = judge(w, tuple(members), tname)
    if verbose:
        from ..structure import observe
        print("  graph ops:", rec["seq"], " vertex classes:", vname)
        print("  links (ends):", observe(w)["lv"], observe(w)["cl"], " members:", members, " options:", tname)
        print("  titles:", [title(v, options(tname)) for v in w.v])
        if out:
            print("  declaration / relation lines:")
            for line in out.split("\n"):
                if DECL.match(line) or REL.match(line):
                    print("     ", line)
        print("  verdict:", bad)
    return bad is not None


def replay(rec, verbose=False):
    """
    Re-executes the WHOLE evaluation of the recorded graph state (every membership list / option
    combination, in the order the explorer used) on freshly built objects and reports whether the
    recorded case fails in it: a renderer that keeps state between calls (a module-level memo, a
    flag left over from the previous call) only misbehaves in a sequence of calls.
    """
    from ..structure import new_item
    new_item()
    spec = dict(rec["space"])
    seq = [tuple(o) for o in rec["seq"]]
    w, ok = engine_g.build(spec, seq)
    ev, nt, viols, _ = per_state(spec, seq, w)
    hit = [fp for fp, r in viols if r["case"] == rec["case"]]
    if verbose:
        print("  whole-state replay: failing cases in this state:", len(viols), " recorded case fails:", bool(hit))
        new_item()
        replay_single(rec, verbose=True)
    return bool(hit)


def run(tier, seed, log):
    rep = Report(PROP, tier, seed)
    results = []
    for spec in SPACES[tier]:
        res = engine_g.explore(spec, per_state, seed=seed, log=log)
        for fp, (n, rec) in res.viols.items():
            rep.add(fp, rec, n)
        results.append((res, _plain(spec)))
    rep.coverage = engine_g.merge_coverage(
        results,
        "every ordered multigraph of each space x 2 vertex-class assignments (all Vertex; Vertex/VA/VB) x every "
        "membership list (subsets, reversed, empty) x 3 option tables (title $id / formatted, per-class type and "
        "title, custom arrow ends for an edge subclass, a user_render_func for a vertex subclass); for one table "
        "every rendering is preceded by two that are rejected part-way; output parsed back into declaration and "
        "relation multisets; non-trivial = non-empty universe and at least one link")
    rep.assumptions = ["show_attrs restricted to ^i$ so attribute lines cannot look like relations",
                       "relation lines for links that leave the universe are tolerated if attributable to a "
                       "distinct existing link attached to a member (the statement only forbids lines for links "
                       "that do not exist)"]
    return rep.finish(confirm=replay)
