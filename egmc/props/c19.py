"""
C19 -- a universe and its laws always point at each other.

Engine H.  Pool: universes (one with default laws, one built with a law set),
free law sets, None.  Ops: `U.laws = L | None`, `L.applies_to = U | None` for
every pair, `Universe(laws=L | None)` (bounded number of extra universes).
Oracle: every op returns normally; in every state `U.laws is L <=> L.applies_to is U`
for all pool objects.  Plus a plain product over constructor inputs for the
rule attributes (read back exactly, cannot be assigned).
"""

import itertools

from edgegraph.structure import Vertex, Universe, DirectedEdge, UnDirectedEdge
from edgegraph.structure.universe import UniverseLaws

from .. import engine_h, canon as _canon
from ..report import Report
from ..structure import reset_globals

PROP = "C19"

POOLS = {
    "quick": [dict(nfree=2, maxnew=1)],
    "thorough": [dict(nfree=2, maxnew=2), dict(nfree=3, maxnew=1), dict(nfree=3, maxnew=2), dict(nfree=4, maxnew=1)],
}


class LWorld:
    def __init__(self, nfree):
        reset_globals()
        self.L = [UniverseLaws() for _ in range(nfree + 1)]   # L[0] is given to U1 at construction
        u0 = Universe()
        u1 = Universe(laws=self.L[0])
        self.U = [u0, u1]
        self.L.append(u0.laws)                                 # U0's default law set
        self.created = 0

    def lid(self, x):
        if x is None:
            return None
        for i, l in enumerate(self.L):
            if l is x:
                return i
        return "?"

    def uid(self, x):
        if x is None:
            return None
        for i, u in enumerate(self.U):
            if u is x:
                return i
        return "?"


def observe(w):
    return {"U.laws": [w.lid(u.laws) for u in w.U],
            "L.applies_to": [w.uid(l.applies_to) for l in w.L]}


def invariant(w):
    bad = []
    for i, u in enumerate(w.U):
        l = u.laws
        if l is not None and w.lid(l) == "?":
            bad.append(("universe-has-unknown-laws", i))
        if l is not None and l.applies_to is not u:
            bad.append(("universe-keeps-laws-that-point-elsewhere", i, w.lid(l), w.uid(l.applies_to)))
    for k, l in enumerate(w.L):
        u = l.applies_to
        if u is not None and u.laws is not l:
            bad.append(("laws-claim-universe-that-has-other-laws", k, w.uid(u), w.lid(u.laws)))
    owners = {}
    for i, u in enumerate(w.U):
        if u.laws is not None:
            owners.setdefault(id(u.laws), []).append(i)
    for o in owners.values():
        if len(o) > 1:
            bad.append(("law-set-bound-to-two-universes", tuple(o)))
    return bad


class Sys:
    def __init__(self, spec):
        self.spec = spec

    def initial(self):
        return LWorld(self.spec["nfree"])

    def ops(self, w):
        out = []
        for i in range(len(w.U)):
            for k in [None] + list(range(len(w.L))):
                out.append(("set_laws", i, k))
        for k in range(len(w.L)):
            for i in [None] + list(range(len(w.U))):
                out.append(("set_applies_to", k, i))
        if w.created < self.spec["maxnew"]:
            for k in [None] + list(range(len(w.L))):
                out.append(("new_universe", k))
            # a construction that is rejected half-way: Universe(vertices=[a vertex, junk], laws=L).  The
            # half-built universe stays reachable through the vertex and takes part in the invariant.
            for k in range(len(w.L)):
                out.append(("new_universe_rejected", k))
        return out

    def apply(self, w, op):
        try:
            if op[0] == "set_laws":
                w.U[op[1]].laws = None if op[2] is None else w.L[op[2]]
            elif op[0] == "set_applies_to":
                w.L[op[1]].applies_to = None if op[2] is None else w.U[op[2]]
            elif op[0] == "new_universe_rejected":
                good = Vertex()
                try:
                    Universe(vertices=[good, "not a vertex"], laws=w.L[op[1]])
                    res = ("ret", "accepted")
                except Exception as e:  # noqa: BLE001
                    res = ("exc-expected", type(e).__name__)
                w.created += 1
                for u in good.universes:                 # what the failed call left behind
                    if w.uid(u) == "?":
                        w.U.append(u)
                        if u.laws is not None and w.lid(u.laws) == "?":
                            w.L.append(u.laws)
                return res
            else:
                u = Universe(laws=None if op[1] is None else w.L[op[1]])
                w.U.append(u)
                w.created += 1
                if u.laws is not None and w.lid(u.laws) == "?":
                    w.L.append(u.laws)
            return ("ret", None)
        except Exception as e:  # noqa: BLE001
            return ("exc", type(e).__name__)

    def canon(self, w):
        # generic walk of the real objects plus the public observation (so that a private representation
        # the walk cannot see into never merges states that look different from outside)
        return (w.created, _canon.canon_graph(w.U + w.L, uid="drop"), repr(observe(w)))

    def check(self, pre, op, post, obs):
        out = []
        pre_o = observe(pre)
        shape = op_shape(pre_o, op)
        if obs[0] == "exc":
            out.append((f"{shape}|raised-{obs[1]}", {"op": list(op), "obs": obs, "pre": pre_o}))
        bad = invariant(post)
        if bad:
            kinds = "+".join(sorted({b[0] for b in bad}))
            out.append((f"{shape}|{kinds}", {"op": list(op), "obs": obs, "pre": pre_o,
                                            "post": observe(post), "broken": bad}))
        if op[0] == "new_universe" and obs[0] == "ret":
            u = post.U[-1]
            want = None if op[1] is None else post.L[op[1]]
            if (want is not None and u.laws is not want) or u.laws is None:
                out.append((f"{shape}|constructed-universe-has-wrong-laws",
                            {"op": list(op), "pre": pre_o, "post": observe(post)}))
        if op[0] == "set_laws" and obs[0] == "ret":
            want = None if op[2] is None else post.L[op[2]]
            if post.U[op[1]].laws is not want:
                out.append((f"{shape}|assignment-did-not-take", {"op": list(op), "pre": pre_o, "post": observe(post)}))
        if op[0] == "set_applies_to" and obs[0] == "ret":
            want = None if op[2] is None else post.U[op[2]]
            if post.L[op[1]].applies_to is not want:
                out.append((f"{shape}|assignment-did-not-take", {"op": list(op), "pre": pre_o, "post": observe(post)}))
        return out

    def nontrivial(self, pre, op, post, obs):
        return observe(pre) != observe(post)


def op_shape(pre_o, op):
    ul, la = pre_o["U.laws"], pre_o["L.applies_to"]
    if op[0] == "set_laws":
        cur = ul[op[1]]
        new = op[2]
        s = f"set_laws|current={'None' if cur is None else 'some'}"
        if new is None:
            return s + "|new=None"
        if new == cur:
            return s + "|new=current"
        return s + f"|new={'in-use-elsewhere' if la[new] is not None else 'free'}"
    if op[0] == "set_applies_to":
        cur = la[op[1]]
        new = op[2]
        s = f"set_applies_to|current={'None' if cur is None else 'some'}"
        if new is None:
            return s + "|new=None"
        if new == cur:
            return s + "|new=current"
        return s + f"|new={'universe-with-laws' if ul[new] is not None else 'universe-without-laws'}"
    name = "new_universe_rejected_half_way" if op[0] == "new_universe_rejected" else "new_universe"
    if op[1] is None:
        return f"{name}|laws=None"
    return f"{name}|laws={'in-use-elsewhere' if la[op[1]] is not None else 'free'}"


def replay(rec, verbose=False):
    if rec.get("kind") == "rules":
        bad = check_rules_case(rec["case"])
        if verbose:
            print("  rule-attribute case", rec["case"], "->", bad)
        return bool(bad)
    s = Sys(rec["pool"])
    w = s.initial()
    hist = [tuple(op) for op in rec["history"]]
    for op in hist[:-1]:
        s.apply(w, op)
    pre = observe(w)
    import copy
    w0 = copy.deepcopy(w)
    obs = s.apply(w, hist[-1])
    bad = s.check(w0, hist[-1], w, obs)
    if verbose:
        print("  history:", hist)
        print("  pre :", pre)
        print("  call:", hist[-1], "->", obs)
        print("  post:", observe(w))
        print("  verdict:", [b[0] for b in bad])
    return bool(bad)


# ---- rule attributes: plain product -----------------------------------------

WHITELISTS = ["none", "empty", "one"]
ATTRS = ["edge_whitelist", "mixed_links", "cycles", "multipath", "multiverse"]


def _mk_whitelist(name):
    if name == "none":
        return None
    if name == "empty":
        return {}
    return {Vertex: {Vertex: DirectedEdge}, Universe: {Vertex: UnDirectedEdge}}


def check_rules_case(case):
    wl_name, flags, bind = case
    wl = _mk_whitelist(wl_name)
    L = UniverseLaws(edge_whitelist=wl, mixed_links=flags[0], cycles=flags[1],
                     multipath=flags[2], multiverse=flags[3])
    if bind == "constructor":
        Universe(laws=L)
    elif bind == "assign":
        u = Universe()
        u.laws = L
    elif bind == "moved":
        u = Universe(laws=L)
        u2 = Universe()
        L.applies_to = u2
    bad = []
    got_wl = L.edge_whitelist
    if wl is None:
        if got_wl is not None:
            bad.append("edge_whitelist-readback")
    else:
        as_dict = {k: dict(v) for k, v in got_wl.items()}
        if as_dict != {k: dict(v) for k, v in wl.items()}:
            bad.append("edge_whitelist-readback")
    for name, val in zip(ATTRS[1:], flags):
        if getattr(L, name) is not val:
            bad.append(f"{name}-readback")
    for name in ATTRS:
        try:
            setattr(L, name, "changed")
            bad.append(f"{name}-assignable")
        except AttributeError:
            pass
        if name != "edge_whitelist" and getattr(L, name) == "changed":
            bad.append(f"{name}-changed")
    return bad


def run(tier, seed, log):
    rep = Report(PROP, tier, seed)
    tot = dict(states=0, transitions=0, validated=0, nontrivial=0, outcomes=0)
    pools_ev, samples = [], []
    exhaustive = True
    for spec in POOLS[tier]:
        log(f"[{PROP}] pool {spec}")
        res = engine_h.explore(Sys(spec), seed=seed, log=log)
        for fp, (n, rec) in res.viols.items():
            rec = dict(rec)
            rec["pool"] = spec
            rep.add(fp, rec, n)
        tot["states"] += res.states
        tot["transitions"] += res.transitions
        tot["validated"] += res.validated
        tot["nontrivial"] += res.nontrivial
        tot["outcomes"] += len(res.outcomes)
        exhaustive = exhaustive and res.exhaustive
        pools_ev.append({"pool": spec, "states": res.states, "transitions": res.transitions,
                         "max_depth": res.depth, "fixpoint": res.exhaustive, "cap_hit": res.cap})
        samples += [{"pool": spec, "history": h} for h in res.sample_histories[-3:]]
    # rule attributes
    ncases = 0
    for wl in WHITELISTS:
        for flags in itertools.product([False, True], repeat=4):
            for bind in ("unbound", "constructor", "assign", "moved"):
                case = [wl, list(flags), bind]
                ncases += 1
                try:
                    bad = check_rules_case(case)
                except Exception as e:  # noqa: BLE001
                    bad = [f"raised-{type(e).__name__}"]
                for b in bad:
                    rep.add(f"rule-attributes|{b}|bind={bind}", {"kind": "rules", "case": case, "history": []})
    rep.coverage = {
        "states": tot["states"], "transitions": tot["transitions"],
        "traces_validated_against_impl": tot["validated"],
        "evaluations": tot["transitions"] + ncases,
        "distinct_nontrivial": tot["nontrivial"],
        "rule_attribute_cases": ncases,
        "rule": "every (state, op) pair over the pool of universes / law sets / None, BFS to fixpoint; "
                "non-trivial = the op changed some binding; plus the complete product of 3 whitelists x "
                "2^4 flags x 4 binding situations for the rule attributes",
        "exhaustive": exhaustive, "fixpoint": exhaustive, "pools": pools_ev,
        "distinct_observed_outcomes": tot["outcomes"], "samples": samples,
    }
    rep.assumptions = ["bounded pool; UniverseLaws(applies_to=...) is not part of the property's alphabet"]
    return rep.finish(confirm=replay)
