"""
C07 -- traversal order is the canonical BFS / DFS order induced by link order.
Same spaces and configurations as C06 (egmc/trav.py, mode "C07"): list form vs
reference BFS / recursive pre-order / explicit-stack DFS driven by the real
neighbors(); hop distance monotone for bft; same call twice and the same graph
rebuilt on a fresh pool give the same index sequence.
"""

from . import c06

PROP = "C07"

RULE = ("every ordered multigraph of each space; per state the same configuration product as C06 x 3 traversals: "
        "list form vs the canonical order computed by a reference implementation over the real neighbors(); "
        "bft hop distance never decreases; repeated call and independently rebuilt graph give the same sequence; "
        "non-trivial = more than the start is reachable")


def replay(rec, verbose=False):
    c06.MODE = "C07"
    return c06.replay(rec, verbose, mode="C07")


def run(tier, seed, log):
    c06.MODE = "C07"
    return c06.run(tier, seed, log, prop=PROP, mode="C07", rule=RULE)
