"""
C05 -- neighbour caching is transparent: cached answers always equal recomputed ones.

Engine H.  World = structure + every vertex's private neighbour memo + the
NEIGHBOR_CACHING flag + "uid registered" bits (all part of the canonical state,
including stale memo contents).  Ops: the two-ended structure alphabet from
either object (constructors, v1/v2 assignment incl. None, explicit.link_*/unlink;
thorough: add_to_link / remove_from_link / add_vertex / unlink_from and the
adjacency builders), `warm(v)` (query every key of the key alphabet at v),
flag on / off, and a pickle round trip of the whole world.  State invariant, on a
throw-away copy of every new state: every neighbour key at every vertex, the
three traversals and the three searches from every start answer the same with the
flag as it is and with the flag forced off.

Fresh-process leg: every reached state is dumped with nrpickler and loaded in two
fresh interpreters (flag off / on) which run the same battery.
"""

import base64
import json
import os
import pickle
import subprocess
import sys
import tempfile

from edgegraph.structure import Vertex, Universe
from edgegraph.traversal import helpers
from edgegraph.output import nrpickler
from edgegraph.builder import adjlist, adjmatrix

from .. import engine_h, battery
from ..fixtures_mod import NB_FILTERS, DIRS, UNKS
from ..report import Report, HarnessError
from ..structure import Alphabet, Pumped, SWorld, apply_op, canon_world, observe, shape, inv_links, memo_is_warm

PROP = "C05"

POOLS = {
    "quick": [
        dict(alpha=dict(nv=2, maxl=2, maxar=2, classes=("D", "U"), raw=False, bad=False), keys="quick", fresh=True),
        dict(alpha=dict(nv=3, maxl=1, maxar=2, classes=("D", "O"), raw=True, bad=False, explicit_ops=False),
             keys="quick", fresh=False),
        # twins: the last vertex is a distinct object with the first one's uid (what un-pickling next to the
        # original gives); whatever is kept per uid instead of per object is shared by the two
        dict(alpha=dict(nv=3, maxl=2, maxar=2, classes=("D",), raw=False, bad=False, none_ends=False,
                        explicit_ops=False, twin=True), keys="quick", fresh=False),
        # universe pool: caching on from the start; links are only created; membership of the world's own
        # universe changes from either side; ("trav", i) runs every traversal and search within that
        # universe from vertex i (so whatever they cache is part of the state); the state invariant asks
        # the battery within that universe too
        dict(alpha=dict(nv=3, maxl=2, maxar=2, classes=("D",), raw=False, bad=False, none_ends=False,
                        explicit_ops=False, setters=False, nu=1, membership=True), keys="quick", fresh=False,
             universe=True),
    ],
    "thorough": [
        dict(alpha=dict(nv=3, maxl=2, maxar=2, classes=("D", "U"), raw=False, bad=False, none_ends=False,
                        explicit_ops=False, setters=False, nu=1, membership=True), keys="quick", fresh=False,
             universe=True),
        dict(alpha=dict(nv=2, maxl=2, maxar=2, classes=("D", "U"), raw=True, bad=False), keys="quick",
             fresh=True, builders=True),
        dict(alpha=dict(nv=3, maxl=2, maxar=2, classes=("D", "U"), raw=False, bad=False, none_ends=False),
             keys="quick", fresh=False),
        dict(alpha=dict(nv=2, maxl=3, maxar=2, classes=("D", "O"), raw=False, bad=False, none_ends=False),
             keys="quick", fresh=False),
        dict(alpha=dict(nv=2, maxl=1, maxar=3, classes=("D", "U", "O"), raw=True, bad=False), keys="full",
             fresh=False, single_queries=True),
    ],
}
KEYSETS = {"quick": battery.KEYS_QUICK, "full": battery.KEYS_FULL}
# the first K of these keys are asked one after the other by the op ("queryseq", vertex, K)
LADDER_KEYS = [(d, u, f) for f in ("none", "selv", "accept") for u in ("NBR", "NON") for d in ("FWD", "ANY", "BWD")][:12]
# pumped pools: hub with n links, caching ON from the start; every history of <= depth ops made of
# "ask the first K keys at the hub / the last spoke" (K = 1..12) and the focused mutators
PUMPED = {
    "quick": dict(ns=[0, 1, 2, 3, 4, 6, 8, 9, 12], depth=2),
    "thorough": dict(ns=list(range(0, 13)) + [16, 17, 32, 33], depth=3),
}


def all_universe(w):
    return (Universe(vertices=list(w.v)),)


def own_universe(w):
    # only the world's own universe: building another one here would itself be a membership change
    return (w.u[0],)


class Sys:
    def __init__(self, spec):
        self.spec = spec
        self.unis = own_universe if spec.get("universe") else all_universe
        if "pumped" in spec:
            self.alpha = Pumped(spec["pumped"], extra_links=1)
            self.keys = LADDER_KEYS
        else:
            self.alpha = Alphabet(**spec["alpha"])
            self.keys = KEYSETS[spec["keys"]]

    def initial(self):
        if "pumped" in self.spec:
            w = self.alpha.initial()
            w.flag = True
            Vertex.NEIGHBOR_CACHING = True
            return w
        if self.spec.get("universe"):
            w = SWorld(self.alpha.nv, 1)
            w.flag = True
            Vertex.NEIGHBOR_CACHING = True
            return w
        return SWorld(self.alpha.nv, twin=getattr(self.alpha, "twin", False))

    def ops(self, w):
        if "pumped" in self.spec:
            out = []
            n = self.alpha.n
            for v in sorted({0, n}):
                for K in range(1, len(LADDER_KEYS) + 1):
                    out.append(("queryseq", v, K))
            out += [op for op in self.alpha.ops(w) if op[0] not in ("addv", "ulf", "link_d") or op[0] == "ulf"]
            out.append(("flag", not w.flag))
            return out
        if self.spec.get("universe"):
            out = [op for op in self.alpha.ops(w)
                   if op[0] not in ("uadd", "urem", "a2u", "rfu")
                   or (op[2] if op[0] in ("uadd", "urem") else op[1]) < self.alpha.nv]
            members = {w.vid(x) for x in w.u[0].vertices}
            out += [("trav", i) for i in range(len(w.v)) if i in members]
            return out
        out = list(self.alpha.ops(w))
        for i in range(len(w.v)):
            out.append(("warm", i))
        if self.spec.get("single_queries"):
            for i in range(len(w.v)):
                for k in self.keys[:6]:
                    out.append(("query", i) + tuple(k))
        out.append(("flag", not w.flag))
        out.append(("pickle_rt",))
        if self.spec.get("builders") and len(w.l) < self.alpha.maxl:
            out.append(("adj_dict", 0, 1))
            out.append(("adj_matrix", 1, 0))
        return out

    def apply(self, w, op):
        k = op[0]
        Vertex.NEIGHBOR_CACHING = w.flag
        if k == "warm":
            v = w.v[op[1]]
            for (d, u, f) in self.keys:
                try:
                    helpers.neighbors(v, DIRS[d], UNKS[u], NB_FILTERS[f])
                except Exception:  # noqa: BLE001
                    pass
            return ("ret", None)
        if k == "trav":
            uni, v = w.u[0], w.v[op[1]]
            for fn in battery.TRAV.values():
                try:
                    fn(uni, v, **battery.TRAV_KW)      # the settings the battery asks with
                except Exception:  # noqa: BLE001
                    pass
            for fn in battery.SEARCH.values():
                try:
                    fn(uni, v, "i", 99)
                except Exception:  # noqa: BLE001
                    pass
            return ("ret", None)
        if k == "queryseq":
            for (d, u, f) in LADDER_KEYS[:op[2]]:
                try:
                    helpers.neighbors(w.v[op[1]], DIRS[d], UNKS[u], NB_FILTERS[f])
                except Exception:  # noqa: BLE001
                    pass
            return ("ret", None)
        if k == "query":
            try:
                helpers.neighbors(w.v[op[1]], DIRS[op[2]], UNKS[op[3]], NB_FILTERS[op[4]])
            except Exception:  # noqa: BLE001
                pass
            return ("ret", None)
        if k == "flag":
            w.flag = op[1]
            Vertex.NEIGHBOR_CACHING = w.flag
            return ("ret", None)
        if k == "pickle_rt":
            try:
                w2 = pickle.loads(nrpickler.dumps(w))
            except Exception as e:  # noqa: BLE001
                return ("exc", type(e).__name__)
            w.v, w.l, w.u, w.flag = w2.v, w2.l, w2.u, w2.flag
            return ("ret", None)
        if k == "adj_dict":
            try:
                adjlist.load_adj_dict({w.v[op[1]]: [w.v[op[2]]]})
            except Exception as e:  # noqa: BLE001
                return ("exc", type(e).__name__)
            self._adopt(w)
            return ("ret", None)
        if k == "adj_matrix":
            try:
                adjmatrix.load_adj_matrix([[0, 1], [0, 0]], [w.v[op[1]], w.v[op[2]]])
            except Exception as e:  # noqa: BLE001
                return ("exc", type(e).__name__)
            self._adopt(w)
            return ("ret", None)
        return apply_op(w, op)

    @staticmethod
    def _adopt(w):
        for v in w.v:
            for l in v.links:
                if w.lid(l) == "?":
                    w.l.append(l)
            for u in list(v.universes):      # the builders' universes are irrelevant here
                v.remove_from_universe(u)

    def canon(self, w):
        return canon_world(w)

    def within_bounds(self, w):
        return self.alpha.within_bounds(w)

    def prune(self, pre, op, post, obs):
        # assume/guarantee: structural asymmetry is C01's to report
        return bool(inv_links(post))

    def check(self, pre, op, post, obs):
        return []

    def state_check(self, pre, op, post, obs):
        hist = self.current_history
        diff = battery.differential(post, self.keys, self.unis, fresh=lambda: engine_h.build(self, hist))
        if not diff:
            return []
        return [(fingerprint(pre, op, diff), {"op": list(op), "differs": [list(map(repr, d)) for d in diff[:4]],
                                              "post": observe(post), "flag": post.flag})]

    def nontrivial(self, pre, op, post, obs):
        # a mutation while some memo holds an entry
        return op[0] not in ("warm", "query", "queryseq", "flag", "pickle_rt", "trav") and any(memo_is_warm(v) for v in pre.v)


def fingerprint(pre, op, diff):
    kinds = sorted({d[0][0] if d[0][0] == "nb" else "traversal/search" for d in diff})
    who = ""
    nb = [d for d in diff if d[0][0] == "nb"]
    if nb and op[0] in ("set_v1", "set_v2", "addv", "ulf", "a2l", "rfl", "new", "unlink", "link_d", "link_u"):
        stale_vertices = sorted({d[0][1] for d in nb})
        args = {a for a in op[1:] if isinstance(a, int)}
        # role of the stale vertex relative to the op is approximated by "named in the op or not"
        who = "|stale-at=" + ("+".join(sorted({"op-argument" if v in args else "other-vertex" for v in stale_vertices})))
    symptom = "raises" if any(d[1][0] == "exc" and d[2][0] != "exc" for d in diff) else "stale-answer"
    pre_flag = "on" if pre.flag else "off"
    return f"{shape(observe(pre), op)}|flag={pre_flag}|{symptom}:{'+'.join(kinds)}{who}"


def replay(rec, verbose=False):
    if rec.get("kind") == "fresh":
        bad = fresh_leg([tuple(tuple(o) for o in rec["history"])], rec["pool"], verbose=verbose)
        return bool(bad)
    s = Sys(rec["pool"])
    w = s.initial()
    hist = [tuple(op) for op in rec["history"]]
    for op in hist:
        r = s.apply(w, op)
        if verbose:
            print(f"  {op} -> {r}   flag={w.flag} links={observe(w)['lv']}")
    diff = battery.differential(w, s.keys, s.unis, fresh=lambda: engine_h.build(s, hist))
    if verbose:
        for d in diff[:6]:
            print("  differs:", d[0], " with caching:", d[1], " recomputed:", d[2])
    Vertex.NEIGHBOR_CACHING = False
    return bool(diff)


# ---- fresh-process leg ---------------------------------------------------------

_CHILD = r"""
import sys, json, pickle, base64
from edgegraph.structure import Vertex
from egmc import battery
from egmc.props import c05
flag = sys.argv[1] == "on"
keys = c05.KEYSETS[sys.argv[2]]
out = []
for line in sys.stdin:
    if not line.strip():
        continue
    w = pickle.loads(base64.b64decode(line))
    w.flag = flag
    Vertex.NEIGHBOR_CACHING = flag
    try:
        ans = battery.full_answers(w, keys, (None,))
        # a second pass: whatever the first pass cached must still be right
        ans2 = battery.full_answers(w, keys, (None,))
        out.append([[repr(k), repr(v)] for k, v in sorted(ans.items(), key=repr)] if ans == ans2 else "second-pass-differs")
    except Exception as e:
        out.append("crash:" + type(e).__name__)
print(json.dumps(out))
"""


FRESH_MAX = 8000


def fresh_leg(histories, spec, verbose=False):
    """Returns list of (history, symptom)."""
    s = Sys(spec)
    blobs, expected = [], []
    for h in histories:
        w = engine_h.build(s, h)
        Vertex.NEIGHBOR_CACHING = w.flag
        blobs.append(base64.b64encode(nrpickler.dumps(w)).decode())
        c = pickle.loads(nrpickler.dumps(w))
        Vertex.NEIGHBOR_CACHING = False
        c.flag = False
        ans = battery.full_answers(c, s.keys, (None,))
        expected.append([[repr(k), repr(v)] for k, v in sorted(ans.items(), key=repr)])
    Vertex.NEIGHBOR_CACHING = False
    bad = []
    env = dict(os.environ)
    for flag in ("off", "on"):
        p = subprocess.run([sys.executable, "-c", _CHILD, flag, spec["keys"]], input="\n".join(blobs) + "\n",
                           capture_output=True, text=True, env=env)
        if p.returncode != 0:
            raise HarnessError(f"fresh interpreter failed: {p.stderr[-2000:]}")
        got = json.loads(p.stdout.strip().splitlines()[-1])
        if len(got) != len(histories):
            raise HarnessError("fresh interpreter returned a different number of answers")
        for h, g, e in zip(histories, got, expected):
            if g != e:
                if isinstance(g, str):
                    sym = g
                else:
                    excs = sorted({v for (k, v) in g if "'exc'" in v} - {v for (k, v) in e if "'exc'" in v})
                    sym = "raises:" + ",".join(x.split("'")[3] for x in excs) if excs else "answers-differ"
                bad.append((h, f"fresh-interpreter|flag={flag}|{sym}"))
                if verbose:
                    print("  history", h, "fresh interpreter flag", flag, "->", sym)
    return bad


def run(tier, seed, log):
    rep = Report(PROP, tier, seed)
    tot = dict(states=0, transitions=0, validated=0, nontrivial=0, outcomes=0, fresh=0)
    pools_ev, samples = [], []
    exhaustive = True
    pump = PUMPED[tier]
    pstates = ptrans = 0
    for n in pump["ns"]:
        spec = {"pumped": n, "keys": "ladder"}
        res = engine_h.explore(Sys(spec), seed=seed, max_depth=pump["depth"])
        for fp, (cnt, rec) in res.viols.items():
            rec = dict(rec)
            rec["pool"] = spec
            rep.add("pumped|" + fp, rec, cnt)
        pstates += res.states
        ptrans += res.transitions
        tot["states"] += res.states
        tot["transitions"] += res.transitions
        tot["validated"] += res.validated
        tot["nontrivial"] += res.nontrivial
    log(f"[{PROP}] pumped stars n={pump['ns']} depth<={pump['depth']}: states={pstates} transitions={ptrans}")
    pools_ev.append({"pool": "pumped stars, caching on (hub with n links; ops: ask the first K of 12 keys at the "
                             "hub / last spoke, focused mutators, flag toggle; every history of <= depth ops)",
                     "hub_degrees": pump["ns"], "depth": pump["depth"], "states": pstates,
                     "transitions": ptrans, "fixpoint": False})
    for spec in POOLS[tier]:
        log(f"[{PROP}] pool {spec}")
        res = engine_h.explore(Sys(spec), seed=seed, log=log, collect=spec.get("fresh", False))
        for fp, (n, rec) in res.viols.items():
            rec = dict(rec)
            rec["pool"] = spec
            rep.add(fp, rec, n)
        nfresh = 0
        if spec.get("fresh"):
            hs = res.all_histories
            if len(hs) > FRESH_MAX:
                # (only happens when the state space is far larger than on the pinned tree)
                log(f"[{PROP}] fresh-interpreter leg limited to the first {FRESH_MAX} of {len(hs)} states (BFS order)")
                hs = hs[:FRESH_MAX]
            bad = fresh_leg(hs, spec)
            nfresh = 2 * len(hs)
            for h, sym in bad:
                rep.add(sym, {"kind": "fresh", "history": [list(o) for o in h], "pool": spec})
        tot["states"] += res.states
        tot["transitions"] += res.transitions
        tot["validated"] += res.validated
        tot["nontrivial"] += res.nontrivial
        tot["outcomes"] += len(res.outcomes)
        tot["fresh"] += nfresh
        exhaustive = exhaustive and res.exhaustive
        pools_ev.append({"pool": spec, "states": res.states, "transitions": res.transitions,
                         "fresh_interpreter_loads": nfresh, "pruned_asymmetric": res.pruned,
                         "max_depth": res.depth, "fixpoint": res.exhaustive, "cap_hit": res.cap,
                         "wall_s": round(res.wall, 1)})
        samples += [{"pool": spec["alpha"], "history": h} for h in res.sample_histories[-3:]]
    rep.coverage = {
        "states": tot["states"], "transitions": tot["transitions"],
        "traces_validated_against_impl": tot["validated"],
        "evaluations": tot["states"] + tot["fresh"],
        "distinct_nontrivial": tot["nontrivial"],
        "fresh_interpreter_loads": tot["fresh"],
        "rule": "every (state, op) pair over mutators from either object, cache-warming queries, flag toggles and "
                "pickle round trips, BFS to fixpoint with the memo contents in the state; every new state gets the "
                "full cached-vs-recomputed battery (all neighbour keys x all vertices, 3 traversals + 3 searches x "
                "all starts x {None, all} universe); non-trivial = a mutation applied while some memo holds an entry",
        "exhaustive": exhaustive, "fixpoint": exhaustive, "pools": pools_ev,
        "distinct_observed_outcomes": tot["outcomes"], "samples": samples,
    }
    rep.assumptions = ["bounded pools; filters are pure functions of (link, vertex)",
                       "states whose structure is asymmetric (C01) are not expanded"]
    return rep.finish(confirm=replay)
