"""
C01 -- vertex<->link association symmetric and duplicate-free after every history.

Engine H over the structure alphabet; the invariant is evaluated after every
call (also calls that raised) in every reachable state of each pool, to fixpoint.
"""

from .. import engine_h
from ..report import Report
from ..structure import (
    Alphabet, Pumped, SWorld, apply_op, canon_world, inv_links, observe, shape,
)

PROP = "C01"

POOLS = {
    "quick": [
        dict(nv=2, maxl=2, maxar=3, classes=("D", "U")),
        # the last vertex is a twin of the first: a distinct object with the same uid (what un-pickling gives)
        dict(nv=3, maxl=1, maxar=2, classes=("D", "U"), bad=False, twin=True),
    ],
    "thorough": [
        dict(nv=3, maxl=2, maxar=2, classes=("D", "U"), bad=False, twin=True),
        dict(nv=2, maxl=2, maxar=3, classes=("D", "U")),
        dict(nv=3, maxl=2, maxar=2, classes=("D", "U")),
        dict(nv=3, maxl=1, maxar=3, classes=("D", "U", "O")),
        dict(nv=2, maxl=3, maxar=2, classes=("D", "O"), bad=False),
        dict(nv=3, maxl=2, maxar=3, classes=("D",), bad=False),
    ],
}


# pumped pools: (list of hub degrees n, depth of the exploration from each pumped state)
PUMPED = {
    # full focus alphabet to `depth`, narrow ("mini") alphabet to `mini_depth`
    "quick": dict(ns=list(range(0, 13)), depth=2, mini_depth=4),
    "thorough": dict(ns=list(range(0, 13)) + [15, 16, 17, 31, 32, 33], depth=3, mini_depth=5),
}


class System:
    rebuild = True

    def __init__(self, alpha):
        self.alpha = alpha

    def initial(self):
        if isinstance(self.alpha, Pumped):
            return self.alpha.initial()
        return SWorld(self.alpha.nv, twin=getattr(self.alpha, "twin", False))

    def ops(self, w):
        return self.alpha.ops(w)

    def apply(self, w, op):
        return apply_op(w, op)

    def canon(self, w):
        return canon_world(w)

    def within_bounds(self, w):
        return self.alpha.within_bounds(w)

    def check(self, pre, op, post, obs):
        bad = inv_links(post)
        if not bad:
            return []
        symptoms = "+".join(sorted({b[0] for b in bad}))
        fp = f"{shape(observe(pre), op)}|{obs[0]}|{symptoms}"
        return [(fp, {"op": list(op), "obs": obs, "broken": bad, "post": observe(post)})]

    def nontrivial(self, pre, op, post, obs):
        # a call on a pool that already holds an attached link
        return any(v.links for v in pre.v) and op[0] != "new_bad"


def replay(rec, verbose=False):
    if "pumped_star" in rec["pool"]:
        pl = rec["pool"]
        alpha = Pumped(pl["pumped_star"], pl["extra_links"], pl["cls"], pl["maxar"], pl["none_ends"],
                       pl.get("mini", False))
        w = alpha.initial()
        if verbose:
            print(f"  start: hub v0 with {alpha.n} links to v1..v{alpha.n}; late = v{alpha.n + 1}, elsewhere = v{alpha.n + 2}")
    else:
        alpha = Alphabet(**rec["pool"])
        w = SWorld(alpha.nv, twin=getattr(alpha, "twin", False))
    obs = None
    for op in rec["history"]:
        obs = apply_op(w, tuple(op))
        if verbose:
            print(f"  {op} -> {obs}   {observe(w)['vl']} {observe(w)['lv']}")
    bad = inv_links(w)
    if verbose:
        print("  invariant breaches after the last call:", bad)
    return bool(bad)


def run(tier, seed, log):
    rep = Report(PROP, tier, seed)
    tot = dict(states=0, transitions=0, validated=0, nontrivial=0, outcomes=0)
    pools_ev = []
    exhaustive = True
    samples = []
    for spec in POOLS[tier]:
        alpha = Alphabet(**spec)
        log(f"[{PROP}] pool {spec}")
        res = engine_h.explore(System(alpha), seed=seed, log=log)
        for fp, (n, rec) in res.viols.items():
            rec = dict(rec)
            rec["pool"] = spec
            rep.add(fp, rec, n)
        tot["states"] += res.states
        tot["transitions"] += res.transitions
        tot["validated"] += res.validated
        tot["nontrivial"] += res.nontrivial
        tot["outcomes"] += len(res.outcomes)
        exhaustive = exhaustive and res.exhaustive
        pools_ev.append({
            "pool": spec, "states": res.states, "transitions": res.transitions,
            "max_depth": res.depth, "fixpoint": res.exhaustive, "cap_hit": res.cap,
            "level_sizes": res.levels, "wall_s": round(res.wall, 1),
        })
        samples += [{"pool": spec, "history": h} for h in res.sample_histories[-3:]]
    pump = PUMPED[tier]
    pstates = ptrans = 0
    for n, mini, depth in ([(n, False, pump["depth"]) for n in pump["ns"]] +
                           [(n, True, pump["mini_depth"]) for n in pump["ns"]]):
        alpha = Pumped(n, mini=mini)
        res = engine_h.explore(System(alpha), seed=seed, max_depth=depth)
        for fp, (cnt, rec) in res.viols.items():
            rec = dict(rec)
            rec["pool"] = alpha.describe()
            rep.add("pumped|" + fp, rec, cnt)
        pstates += res.states
        ptrans += res.transitions
        tot["states"] += res.states
        tot["transitions"] += res.transitions
        tot["validated"] += res.validated
        tot["nontrivial"] += res.nontrivial
    log(f"[{PROP}] pumped stars n={pump['ns']} depth<={pump['depth']}: states={pstates} transitions={ptrans}")
    pools_ev.append({"pool": "pumped stars (hub with n links; every history of <= depth focused ops from there)",
                     "hub_degrees": pump["ns"], "depth": pump["depth"], "narrow_alphabet_depth": pump["mini_depth"],
                     "states": pstates,
                     "transitions": ptrans, "fixpoint": False})
    rep.coverage = {
        "states": tot["states"],
        "transitions": tot["transitions"],
        "traces_validated_against_impl": tot["validated"],
        "evaluations": tot["transitions"],
        "distinct_nontrivial": tot["nontrivial"],
        "rule": "every (state, op) pair of the structure alphabet over each pool, BFS to "
                "fixpoint; the invariant is evaluated on the real objects after every call; "
                "non-trivial = the pre-state already holds an attached link and the op is "
                "not an ill-typed constructor call; distinct by construction (each state "
                "is expanded once)",
        "exhaustive": exhaustive,
        "fixpoint": exhaustive,
        "pools": pools_ev,
        "distinct_observed_outcomes": tot["outcomes"],
        "samples": samples,
    }
    rep.assumptions = [
        "bounded pool (see pools); histories of every length over that pool",
        "states are merged on the complete vars() of every pool object with identities "
        "replaced by pool indices and uid values dropped (128-bit digest)",
        "successors of a violating transition are not expanded",
    ]
    return rep.finish(confirm=replay)
