"""
C15 -- PyVis export: one node per member vertex, only real edges, correctly directed.

Engine G: graph states with directed / undirected / other two-ended links
(self-loops, parallel edges, mixed) x every membership list (subsets, permuted
order, empty) x rvfunc x refunc; vertices carry unrelated attributes.  The
returned Network's nodes and edges are compared with the graph.
"""

import collections
import itertools

from edgegraph.structure import Vertex, Universe, DirectedEdge
from edgegraph.output import pyvis as egpyvis

from .. import engine_g
from ..report import Report

PROP = "C15"

SPACES = {
    "quick": [dict(nv=3, maxl=2, classes=("D", "U", "O")),
              dict(nv=3, maxl=3, minl=3, classes=("D", "U")),
              dict(nv=3, maxl=2, classes=("D", "U"), twin=True)],      # the last vertex carries the first one's uid
    "thorough": [dict(nv=3, maxl=3, classes=("D", "U", "O", "Ds")),
                 dict(nv=4, maxl=3, minl=3, classes=("D", "U")),
                 dict(nv=3, maxl=2, classes=("D", "U", "O"), mutations=True),
                 dict(nv=3, maxl=4, minl=4, classes=("D", "U")),
                 dict(nv=2, maxl=6, minl=4, classes=("D", "U")),
                 dict(nv=3, maxl=3, classes=("D", "U"), twin=True)],
}


SPACES["quick"] += engine_g.family_specs(list(range(4, 13)) + [16, 17])
SPACES["thorough"] += engine_g.family_specs(list(range(4, 13)) + [16, 17, 32, 33, 64, 65, 257, 258])


def rv_label(v):
    return f"n{v.i}"


def re_title(e):
    return type(e).__name__


RV = {"none": None, "label": rv_label}
RE = {"none": None, "title": re_title}


def member_lists(nv):
    if nv > 4:
        mid = nv // 2
        return [tuple(range(nv)), tuple(i for i in range(nv) if i != mid), tuple(range(0, nv, 2)),
                tuple(reversed(range(nv)))]
    out = [()]
    for n in range(1, nv + 1):
        out += list(itertools.combinations(range(nv), n))
    out.append(tuple(reversed(range(nv))))
    return out


def _fail():
    raise RuntimeError("callback fails")


def judge(w, members, rvn, ren):
    uni = Universe(vertices=[w.v[i] for i in members])
    mem = [w.v[i] for i in members]
    if rvn == next(iter(RV)) and ren == next(iter(RE)):
        # exports that fail come first: of a universe of all vertices, with a node-label function that
        # raises at the k-th vertex (every k) and an edge-title function that raises -- a failed export
        # must not spoil the valid one that follows (of this, usually smaller, universe)
        allv = Universe(vertices=list(w.v))
        try:
            egpyvis.make_pyvis_net(allv, refunc=lambda e: _fail())
        except Exception:  # noqa: BLE001
            pass
        for k in reversed(range(len(w.v))):       # later failures first: an earlier one must not tidy up after them
            try:
                egpyvis.make_pyvis_net(allv, rvfunc=lambda v, _k=w.v[k]: _fail() if v is _k else "x")
            except Exception:  # noqa: BLE001
                pass
    try:
        net = egpyvis.make_pyvis_net(uni, rvfunc=RV[rvn], refunc=RE[ren])
    except Exception as e:  # noqa: BLE001
        return f"raised-{type(e).__name__}", None
    n = len(mem)
    desc = {"nodes": [(nd.get("id"), nd.get("label")) for nd in net.nodes],
            "edges": [(e.get("from"), e.get("to"), e.get("arrows")) for e in net.edges]}
    # nodes
    ids = [nd.get("id") for nd in net.nodes]
    if ids != list(range(n)):
        return "node-ids", desc
    for k, nd in enumerate(net.nodes):
        want = RV[rvn](mem[k]) if RV[rvn] else hex(id(mem[k]))
        if nd.get("label") != want:
            return "node-label", desc
    # links with both ends members
    pos = {id(v): k for k, v in enumerate(mem)}
    internal = []
    seen = set()
    for v in mem:
        for l in v.links:
            if id(l) in seen:
                continue
            seen.add(id(l))
            p, q = l.vertices
            if id(p) in pos and id(q) in pos:
                internal.append((l, pos[id(p)], pos[id(q)]))
    directed_want = collections.Counter((i, j) for l, i, j in internal if isinstance(l, DirectedEdge))
    undirected_pairs = {frozenset((i, j)) for l, i, j in internal if not isinstance(l, DirectedEdge)}
    arrowed = collections.Counter()
    plain = []
    for e in net.edges:
        i, j = e.get("from"), e.get("to")
        if i not in range(n) or j not in range(n):
            return "edge-to-non-member", desc
        if e.get("arrows"):
            arrowed[(i, j)] += 1
        else:
            plain.append((i, j))
    if arrowed != directed_want:
        rev = collections.Counter((j, i) for (i, j) in arrowed.elements())
        if rev == directed_want and arrowed != directed_want:
            return "arrow-direction", desc
        if set(arrowed) - set(directed_want):
            # an arrow where there is no directed link from i to j
            if any(frozenset(k) in undirected_pairs for k in set(arrowed) - set(directed_want)):
                return "arrow-on-non-directed-link", desc
            return "arrowed-edge-without-directed-link", desc
        if sum(arrowed.values()) < sum(directed_want.values()):
            miss = directed_want - arrowed
            if any(i == j for (i, j) in miss):
                return "directed-self-loop-missing", desc
            if any(frozenset(k) in {frozenset(p) for p in plain} for k in miss):
                return "directed-link-drawn-without-arrow", desc
            return "directed-link-missing", desc
        return "arrowed-edge-multiplicity", desc
    for (i, j) in plain:
        if frozenset((i, j)) not in undirected_pairs:
            return "plain-edge-without-non-directed-link", desc
    joined = {frozenset((e.get("from"), e.get("to"))) for e in net.edges}
    for l, i, j in internal:
        if frozenset((i, j)) not in joined:
            return "self-loop-missing" if i == j else "link-missing", desc
    return None, desc


def per_state(spec, seq, w):
    Vertex.NEIGHBOR_CACHING = False
    for v in w.v:
        v.color = "red"            # unrelated attributes
        v.weight = 3
    evals = nontriv = 0
    viols = []
    sq = [list(o) for o in seq]
    for members in member_lists(spec["nv"]):
        for rvn in RV:
            for ren in RE:
                evals += 1
                nontriv += bool(members) and bool(w.l)
                bad, desc = judge(w, members, rvn, ren)
                if bad:
                    mk = "empty" if not members else ("all" if len(members) == spec["nv"] else "partial")
                    fp = f"make_pyvis_net|members={mk}|rvfunc={rvn}|refunc={ren}|{bad}"
                    viols.append((fp, {"seq": sq, "space": _plain(spec), "case": [list(members), rvn, ren]}))
    return evals, nontriv, viols, None


def _plain(spec):
    return {k: (list(v) if isinstance(v, tuple) else v) for k, v in spec.items() if k != "explicit"}


def replay_single(rec, verbose=False):
    w, ok = engine_g.build(rec["space"], [tuple(o) for o in rec["seq"]])
    Vertex.NEIGHBOR_CACHING = False
    members, rvn, ren = rec["case"]
    bad, desc = judge(w, tuple(members), rvn, ren)
    if verbose:
        from ..structure import observe
        print("  graph ops:", rec["seq"])
        print("  links (ends):", observe(w)["lv"], observe(w)["cl"], " members:", members)
        print("  network:", desc)
        print("  verdict:", bad)
    return bad is not None


def replay(rec, verbose=False):
    """
    Re-executes the WHOLE evaluation of the recorded graph state (every membership list / option
    combination, in the order the explorer used) on freshly built objects and reports whether the
    recorded case fails in it: a renderer that keeps state between calls (a module-level memo, a
    flag left over from the previous call) only misbehaves in a sequence of calls.
    """
    from ..structure import new_item
    new_item()
    spec = dict(rec["space"])
    seq = [tuple(o) for o in rec["seq"]]
    w, ok = engine_g.build(spec, seq)
    ev, nt, viols, _ = per_state(spec, seq, w)
    hit = [fp for fp, r in viols if r["case"] == rec["case"]]
    if verbose:
        print("  whole-state replay: failing cases in this state:", len(viols), " recorded case fails:", bool(hit))
        new_item()
        replay_single(rec, verbose=True)
    return bool(hit)


def run(tier, seed, log):
    rep = Report(PROP, tier, seed)
    results = []
    for spec in SPACES[tier]:
        res = engine_g.explore(spec, per_state, seed=seed, log=log)
        for fp, (n, rec) in res.viols.items():
            rep.add(fp, rec, n)
        results.append((res, _plain(spec)))
    rep.coverage = engine_g.merge_coverage(
        results,
        "every ordered multigraph of each space x every membership list (subsets, reversed order, empty) x "
        "rvfunc {None, label} x refunc {None, title}; the Network's nodes / arrowed edges (as a multiset) / "
        "plain edges are compared with the graph; for one callback combination every export is preceded by exports "
        "of the universe of all vertices that fail (edge-title callback; node-label callback at every vertex index); "
        "non-trivial = non-empty universe and at least one link")
    rep.assumptions = ["pyvis itself merges repeated undirected edges between the same node pair; the statement "
                       "only requires such links to leave their nodes joined"]
    return rep.finish(confirm=replay)
