"""
C02 -- universe membership symmetric, ordered and duplicate-free after every history.

Engine H.  Pool: vertices and universes (a universe is a vertex: every pool
object may be a member of every universe, including of itself).  Ops: the four
membership calls from either side, and the two constructors
`Vertex(universes=S)` / `Universe(vertices=S)` for every sequence S (with
repetitions) over the pool up to a length bound.  Oracle: the invariant and
equality with the reference model's ordered lists after every call; removing a
non-member must raise and change nothing.
"""

import copy
import itertools

from edgegraph.structure import Vertex, Universe

from .. import engine_h
from ..report import Report
from ..structure import SWorld, apply_op, canon_world, inv_members, observe

PROP = "C02"

# nv, nu: base pool; maxnew: constructor calls along a history; seqlen: max len of S;
# expand_new: whether states that contain a constructed object are expanded further
POOLS = {
    "quick": [
        dict(nv=2, nu=2, maxnew=1, seqlen=2, expand_new=False),
        dict(nv=1, nu=2, maxnew=1, seqlen=3, expand_new=False),
        dict(nv=2, nu=1, maxnew=0, seqlen=0, expand_new=False, twin=True),    # the two vertices carry the same uid
    ],
    "thorough": [
        dict(nv=2, nu=2, maxnew=1, seqlen=3, expand_new=False),
        dict(nv=1, nu=1, maxnew=1, seqlen=2, expand_new=True),
        dict(nv=0, nu=2, maxnew=1, seqlen=2, expand_new=True),
        dict(nv=3, nu=2, maxnew=0, seqlen=0, expand_new=False),
        dict(nv=1, nu=3, maxnew=0, seqlen=0, expand_new=False),
    ],
}


# pumped pools: one universe that already has n members (added in order through the public call), two
# further vertices; every history of <= depth membership calls on {first member, last member, the two
# outsiders} from there (behaviour that depends on the size of a universe)
PUMPED = {
    "quick": dict(ns=list(range(0, 13)), depth=6),
    "thorough": dict(ns=list(range(0, 13)) + [15, 16, 17, 31, 32, 33], depth=8),
}


class Sys:
    def __init__(self, spec):
        self.spec = spec

    def initial(self):
        if "pumped" in self.spec:
            n = self.spec["pumped"]
            w = SWorld(n + 2, 1)
            w.created = 0
            for k in range(n):
                w.u[0].add_vertex(w.v[k])
            return w
        w = SWorld(self.spec["nv"], self.spec["nu"], twin=self.spec.get("twin", False))
        w.created = 0
        return w

    def ops(self, w):
        if "pumped" in self.spec:
            n = self.spec["pumped"]
            focus = sorted({n, n + 1} | ({0, n - 1} if n else set()))
            out = []
            for x in focus:
                out += [("uadd", 0, x), ("a2u", x, 0), ("urem", 0, x), ("rfu", x, 0)]
            return out
        nm = len(w.v) + len(w.u)
        out = []
        for k in range(len(w.u)):
            for x in range(nm):
                out.append(("uadd", k, x))
                out.append(("a2u", x, k))
                out.append(("urem", k, x))
                out.append(("rfu", x, k))
        if w.created < self.spec["maxnew"]:
            for n in range(self.spec["seqlen"] + 1):
                for S in itertools.product(range(len(w.u)), repeat=n):
                    out.append(("newv", tuple(S), "list"))
                for S in itertools.product(range(nm), repeat=n):
                    out.append(("newu", tuple(S), "list"))
            # other iterable kinds for the constructor argument
            if w.u:
                out.append(("newv", (0, 0), "tuple"))
                out.append(("newv", (len(w.u) - 1, 0), "gen"))
            out.append(("newu", (0, 0), "tuple"))
            out.append(("newu", (nm - 1, 0), "gen"))
            out.append(("newv", None, "none"))
            out.append(("newu", None, "none"))
        return out

    def apply(self, w, op):
        k = op[0]
        if k in ("newv", "newu"):
            try:
                S = op[1]
                if k == "newv":
                    objs = None if S is None else [w.u[i] for i in S]
                else:
                    objs = None if S is None else [w.M(i) for i in S]
                if op[2] == "tuple":
                    objs = tuple(objs)
                elif op[2] == "gen":
                    objs = (o for o in list(objs))
                if k == "newv":
                    x = Vertex(universes=objs, attributes={"i": 50 + w.created})
                    w.v.append(x)
                else:
                    x = Universe(vertices=objs, attributes={"i": 150 + w.created})
                    w.u.append(x)
                w.created += 1
                return ("ret", "created")
            except Exception as e:  # noqa: BLE001
                return ("exc", type(e).__name__)
        return apply_op(w, op)

    def canon(self, w):
        return (w.created, canon_world(w))

    def prune(self, pre, op, post, obs):
        return post.created > 0 and not self.spec["expand_new"]

    def check(self, pre, op, post, obs):
        pre_o, post_o = observe(pre), observe(post)
        bad = judge(pre_o, op, post_o, obs, len(pre.v))
        inv = inv_members(post)
        if not bad and not inv:
            return []
        kinds = list(bad)
        if inv:
            kinds.append("asymmetric:" + "+".join(sorted({b[0] for b in inv})))
        fp = f"{op_shape(pre_o, op, len(pre.v))}|{obs[0]}|{'+'.join(kinds)}"
        return [(fp, {"op": list(op), "obs": obs, "pre": pre_o, "post": post_o,
                      "expected": model(pre_o, op, len(pre.v))})]

    def nontrivial(self, pre, op, post, obs):
        return any(u.vertices for u in pre.u)


def op_shape(pre_o, op, nv):
    k = op[0]
    if k in ("uadd", "urem", "a2u", "rfu"):
        u, x = (op[1], op[2]) if k in ("uadd", "urem") else (op[2], op[1])
        member = x in pre_o["um"][u]
        selfm = (x == nv + u)
        kind = "universe" if x >= nv else "vertex"
        return f"{k}|{kind}{'(itself)' if selfm else ''}|{'member' if member else 'non-member'}"
    S = op[1]
    if S is None:
        return f"{k}|None"
    return f"{k}|{op[2]}|len={len(S)}|{'repeats' if len(set(S)) < len(S) else 'distinct'}"


def model(pre_o, op, nv):
    """Reference model on the membership part of the observation: returns (xu, um, ret)."""
    xu = copy.deepcopy(pre_o["xu"])
    um = copy.deepcopy(pre_o["um"])
    k = op[0]
    if k in ("uadd", "a2u"):
        u, x = (op[1], op[2]) if k == "uadd" else (op[2], op[1])
        if x not in um[u]:
            um[u].append(x)
        if u not in xu[x]:
            xu[x].append(u)
        return xu, um, "ret"
    if k in ("urem", "rfu"):
        u, x = (op[1], op[2]) if k == "urem" else (op[2], op[1])
        if x not in um[u]:
            return xu, um, "exc"
        um[u].remove(x)
        xu[x].remove(u)
        return xu, um, "ret"
    if k == "newv":
        # the new vertex takes member index nv; universes shift by one
        um = [[m + 1 if m >= nv else m for m in row] for row in um]
        S = list(dict.fromkeys(op[1] or []))
        xu.insert(nv, list(S))
        for u in S:
            um[u].append(nv)
        return xu, um, "ret"
    if k == "newu":
        newu = len(um)
        idx = len(xu)          # member index of the new universe
        row = []
        xu.append([])
        for x in (op[1] or []):
            if x not in row:
                row.append(x)
                xu[x].append(newu)
        um.append(row)
        return xu, um, "ret"
    raise ValueError(op)


def judge(pre_o, op, post_o, obs, nv):
    xu, um, ret = model(pre_o, op, nv)
    bad = []
    if obs[0] != ret:
        bad.append("raised" if obs[0] == "exc" else "did-not-raise")
    if post_o["um"] != um:
        bad.append("universe.vertices" + ("-order" if [sorted(r, key=repr) for r in post_o["um"]] == [sorted(r, key=repr) for r in um] else ""))
    if post_o["xu"] != xu:
        bad.append("x.universes" + ("-order" if [sorted(r, key=repr) for r in post_o["xu"]] == [sorted(r, key=repr) for r in xu] else ""))
    return bad


def replay(rec, verbose=False):
    s = Sys(rec["pool"])
    w = s.initial()
    hist = [tuple(tuple(a) if isinstance(a, list) else a for a in op) for op in rec["history"]]
    for op in hist[:-1]:
        s.apply(w, op)
    pre_o, nv = observe(w), len(w.v)
    obs = s.apply(w, hist[-1])
    post_o = observe(w)
    bad = judge(pre_o, hist[-1], post_o, obs, nv)
    inv = inv_members(w)
    if verbose:
        print("  history:", hist)
        print("  pre : x.universes", pre_o["xu"], " U.vertices", pre_o["um"])
        print("  call:", hist[-1], "->", obs)
        print("  post: x.universes", post_o["xu"], " U.vertices", post_o["um"])
        print("  model:", model(pre_o, hist[-1], nv))
        print("  verdict:", bad, inv)
    return bool(bad or inv)


def run(tier, seed, log):
    rep = Report(PROP, tier, seed)
    tot = dict(states=0, transitions=0, validated=0, nontrivial=0, outcomes=0, leaves=0)
    pools_ev, samples = [], []
    exhaustive = True
    for spec in POOLS[tier]:
        log(f"[{PROP}] pool {spec}")
        res = engine_h.explore(Sys(spec), seed=seed, log=log)
        for fp, (n, rec) in res.viols.items():
            rec = dict(rec)
            rec["pool"] = spec
            rep.add(fp, rec, n)
        tot["states"] += res.states
        tot["transitions"] += res.transitions
        tot["validated"] += res.validated
        tot["nontrivial"] += res.nontrivial + res.pruned
        tot["outcomes"] += len(res.outcomes)
        tot["leaves"] += res.pruned
        exhaustive = exhaustive and res.exhaustive
        pools_ev.append({"pool": spec, "states": res.states, "transitions": res.transitions,
                         "constructor_leaf_transitions": res.pruned, "max_depth": res.depth,
                         "fixpoint": res.exhaustive, "cap_hit": res.cap, "wall_s": round(res.wall, 1)})
        samples += [{"pool": spec, "history": h} for h in res.sample_histories[-3:]]
    pump = PUMPED[tier]
    pstates = ptrans = 0
    for n in pump["ns"]:
        spec = {"pumped": n, "nv": n + 2, "nu": 1, "maxnew": 0, "seqlen": 0, "expand_new": False}
        res = engine_h.explore(Sys(spec), seed=seed, max_depth=pump["depth"])
        for fp, (cnt, rec) in res.viols.items():
            rec = dict(rec)
            rec["pool"] = spec
            rep.add("pumped|" + fp, rec, cnt)
        pstates += res.states
        ptrans += res.transitions
        tot["states"] += res.states
        tot["transitions"] += res.transitions
        tot["validated"] += res.validated
        tot["nontrivial"] += res.nontrivial
    log(f"[{PROP}] pumped universes n={pump['ns']} depth<={pump['depth']}: states={pstates} transitions={ptrans}")
    pools_ev.append({"pool": "pumped universes (n members; every history of <= depth focused membership calls)",
                     "member_counts": pump["ns"], "depth": pump["depth"], "states": pstates,
                     "transitions": ptrans, "fixpoint": False})
    rep.coverage = {
        "states": tot["states"], "transitions": tot["transitions"],
        "traces_validated_against_impl": tot["validated"],
        "evaluations": tot["transitions"],
        "distinct_nontrivial": tot["nontrivial"],
        "rule": "every (state, op) pair, BFS to fixpoint over the four membership calls; the two "
                "constructors with every argument sequence up to the length bound are applied in every "
                "state (as leaf transitions unless expand_new); non-trivial = some universe of the "
                "pre-state has a member, or the op is a constructor call",
        "constructor_leaf_transitions": tot["leaves"],
        "exhaustive": exhaustive, "fixpoint": exhaustive, "pools": pools_ev,
        "distinct_observed_outcomes": tot["outcomes"], "samples": samples,
    }
    rep.assumptions = [
        "bounded pools; histories of every length of the membership calls over each pool",
        "removing a non-member may raise any exception type (the docstrings name ValueError and KeyError)",
    ]
    return rep.finish(confirm=replay)
