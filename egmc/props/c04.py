"""
C04 -- neighbors() follows the documented direction / unknown-type / filter table.

Engine G: every ordered multigraph of the space; in every state every vertex x
3 directions x 3 unknown modes x 5 filters is compared with the decision-table
oracle (exact list: order and multiplicity), and the forward/backward duality is
checked directly on the real function.  Caching off (C05 covers caching).
"""

import collections

from edgegraph.structure import Vertex
from edgegraph.traversal import helpers

from .. import engine_g, oracles
from ..fixtures_mod import NB_FILTERS, DIRS, UNKS
from ..report import Report

PROP = "C04"

ALL6 = ("D", "U", "Ds", "Us", "T", "O")
SPACES = {
    "quick": [
        dict(nv=3, maxl=2, classes=ALL6),
        dict(nv=3, maxl=3, minl=3, classes=("D", "U", "O")),
        dict(nv=2, maxl=6, minl=4, classes=("D",)),                # many links on one vertex
        dict(nv=2, maxl=4, minl=4, classes=("D", "U", "O")),       # four links of mixed kinds
        dict(nv=3, maxl=2, classes=("D", "U", "O"), twin=True),    # the last vertex carries the first one's uid
    ],
    "thorough": [
        dict(nv=3, maxl=3, classes=ALL6),
        dict(nv=3, maxl=2, classes=ALL6, mutations=True),
        dict(nv=2, maxl=4, minl=4, classes=("D", "Us", "O")),
        dict(nv=4, maxl=3, minl=3, classes=("D", "U", "O")),
        dict(nv=3, maxl=4, minl=4, classes=("D", "U", "O")),
        dict(nv=2, maxl=7, minl=5, classes=("D", "O")),            # many links on one vertex
        dict(nv=3, maxl=8, minl=5, classes=("D",), pairs=[(0, 1), (0, 2), (1, 0)]),
        dict(nv=3, maxl=3, classes=("D", "U", "O"), twin=True),
    ],
}
# deterministic shapes (chains, rings, stars, trees, fans of parallel links, ...) at a ladder of sizes
SPACES["quick"] += engine_g.family_specs(list(range(4, 13)) + [16, 17])
SPACES["thorough"] += engine_g.family_specs(list(range(4, 13)) + [16, 17, 32, 33])
FILTERS = ("none", "accept", "reject", "selv", "sell")
DUAL_FILTERS = ("none", "accept", "sell")


def call_nb(v, d, u, f):
    try:
        return ("ret", helpers.neighbors(v, direction_sensitive=d, unknown_handling=u, filterfunc=f))
    except NotImplementedError:
        return ("exc", "NotImplementedError")
    except Exception as e:  # noqa: BLE001
        return ("exc", type(e).__name__)


def judge_one(w, vi, dn, un, fn):
    v = w.v[vi]
    d, u, f = DIRS[dn], UNKS[un], NB_FILTERS[fn]
    exp, mode = oracles.nb_oracle(v, d, u, f)
    got = call_nb(v, d, u, f)
    if got[0] == "exc":
        if got[1] == "NotImplementedError" and mode in (oracles.RAISES, oracles.EITHER):
            return None
        return f"raised-{got[1]}"
    if mode == oracles.RAISES:
        return "did-not-raise-NotImplementedError"
    res = got[1]
    if not isinstance(res, list):
        return f"returned-{type(res).__name__}"
    if len(res) == len(exp) and all(a is b for a, b in zip(res, exp)):
        return None
    ids = sorted(map(id, res))
    if ids == sorted(map(id, exp)):
        return "order"
    if set(ids) == set(map(id, exp)):
        return "multiplicity"
    if set(ids) < set(map(id, exp)) or len(res) < len(exp):
        return "missing-neighbour"
    return "extra-neighbour"


def vertex_position(w, vi):
    """aliasing description of v's links: kinds present and roles"""
    v = w.v[vi]
    kinds = set()
    for l in v.links:
        p, q = l.vertices
        k = oracles.link_kind(l)
        role = "loop" if p is q else ("origin" if p is v else "dest")
        kinds.add(f"{k}{role}")
    return ",".join(sorted(kinds))


def per_state(spec, seq, w):
    Vertex.NEIGHBOR_CACHING = False
    evals = nontriv = 0
    viols = []
    outcomes = collections.Counter()
    nv = len(w.v)
    for vi in range(nv):
        has_links = bool(w.v[vi].links)
        for dn in DIRS:
            for un in UNKS:
                for fn in FILTERS:
                    evals += 1
                    nontriv += has_links
                    bad = judge_one(w, vi, dn, un, fn)
                    if bad:
                        kinds = {oracles.link_kind(l) for l in w.v[vi].links}
                        fp = f"neighbors|dir={dn}|unknown={un}|filter={fn}|linkkinds={''.join(sorted(kinds))}|{bad}"
                        viols.append((fp, {"seq": [list(o) for o in seq], "space": _plain(spec),
                                           "case": ["nb", vi, dn, un, fn]}))
    # duality on the real function
    for un in ("NON", "NBR"):
        for fn in DUAL_FILTERS:
            f = NB_FILTERS[fn]
            fw = [call_nb(w.v[i], DIRS["FWD"], UNKS[un], f) for i in range(nv)]
            bw = [call_nb(w.v[i], DIRS["BWD"], UNKS[un], f) for i in range(nv)]
            for a in range(nv):
                for b in range(nv):
                    evals += 1
                    if fw[a][0] != "ret" or bw[b][0] != "ret":
                        continue
                    ca = sum(1 for x in fw[a][1] if x is w.v[b])
                    cb = sum(1 for x in bw[b][1] if x is w.v[a])
                    nontriv += bool(ca or cb)
                    if ca != cb:
                        fp = f"duality|unknown={un}|filter={fn}|{'a=b' if a == b else 'a!=b'}"
                        viols.append((fp, {"seq": [list(o) for o in seq], "space": _plain(spec),
                                           "case": ["dual", a, b, un, fn]}))
    # the same table again with neighbour caching ON, twice over (the second pass reads whatever the first
    # one -- including its calls that raised -- left in the memos), on a re-built world
    w2, _ = engine_g.build(spec, seq, validate=False)
    Vertex.NEIGHBOR_CACHING = True
    try:
        for npass in (1, 2):
            for vi in range(len(w2.v)):
                for dn in DIRS:
                    for un in UNKS:
                        for fn in FILTERS:
                            evals += 1
                            nontriv += bool(w2.v[vi].links)
                            bad = judge_one(w2, vi, dn, un, fn)
                            if bad:
                                kinds = {oracles.link_kind(l) for l in w2.v[vi].links}
                                fp = (f"neighbors|dir={dn}|unknown={un}|filter={fn}|linkkinds={''.join(sorted(kinds))}|{bad}"
                                      f"|caching-on-pass-{npass}")
                                viols.append((fp, {"seq": [list(o) for o in seq], "space": _plain(spec),
                                                   "case": ["nbc", vi, dn, un, fn, npass]}))
    finally:
        Vertex.NEIGHBOR_CACHING = False
    return evals, nontriv, viols, outcomes


def _plain(spec):
    return {k: (list(v) if isinstance(v, tuple) else v) for k, v in spec.items() if k != "explicit"}


def replay(rec, verbose=False):
    spec = rec["space"]
    seq = [tuple(o) for o in rec["seq"]]
    w, ok = engine_g.build(spec, seq)
    Vertex.NEIGHBOR_CACHING = False
    case = rec["case"]
    if verbose:
        from ..structure import observe
        print("  graph ops:", seq)
        print("  structure:", observe(w)["lv"], observe(w)["cl"], "well-formed:", ok)
    if case[0] == "nbc":
        # the whole cached table up to (and including) the recorded call, in the explorer's order
        _, tvi, tdn, tun, tfn, tpass = case
        Vertex.NEIGHBOR_CACHING = True
        try:
            for npass in (1, 2):
                for vi in range(len(w.v)):
                    for dn in DIRS:
                        for un in UNKS:
                            for fn in FILTERS:
                                bad = judge_one(w, vi, dn, un, fn)
                                if (vi, dn, un, fn, npass) == (tvi, tdn, tun, tfn, tpass):
                                    if verbose:
                                        print(f"  caching on, pass {npass}: neighbors(v{vi}, {dn}, {un}, filter={fn}) ->", bad)
                                    return bad is not None
        finally:
            Vertex.NEIGHBOR_CACHING = False
        return False
    if case[0] == "nb":
        _, vi, dn, un, fn = case
        bad = judge_one(w, vi, dn, un, fn)
        if verbose:
            v = w.v[vi]
            exp, mode = oracles.nb_oracle(v, DIRS[dn], UNKS[un], NB_FILTERS[fn])
            got = call_nb(v, DIRS[dn], UNKS[un], NB_FILTERS[fn])
            print(f"  neighbors(v{vi}, {dn}, {un}, filter={fn})")
            print("   expected:", [x.i for x in exp], mode)
            print("   got     :", [x.i for x in got[1]] if got[0] == "ret" else got)
            print("   verdict :", bad)
        return bad is not None
    _, a, b, un, fn = case
    f = NB_FILTERS[fn]
    fa = call_nb(w.v[a], DIRS["FWD"], UNKS[un], f)
    bb = call_nb(w.v[b], DIRS["BWD"], UNKS[un], f)
    if fa[0] != "ret" or bb[0] != "ret":
        return False
    ca = sum(1 for x in fa[1] if x is w.v[b])
    cb = sum(1 for x in bb[1] if x is w.v[a])
    if verbose:
        print(f"  v{b} occurs {ca}x in FORWARD neighbours of v{a}; v{a} occurs {cb}x in BACKWARD neighbours of v{b}")
    return ca != cb


def run(tier, seed, log):
    rep = Report(PROP, tier, seed)
    results = []
    for spec in SPACES[tier]:
        res = engine_g.explore(spec, per_state, seed=seed, log=log)
        for fp, (n, rec) in res.viols.items():
            rep.add(fp, rec, n)
        results.append((res, _plain(spec)))
    rep.coverage = engine_g.merge_coverage(
        results,
        "every ordered multigraph of each space (all classes x all ordered end pairs incl. self-loops, "
        "every construction order), built on the real code; per state every vertex x 3 directions x 3 "
        "unknown modes x 5 filters vs the decision-table oracle, plus forward/backward duality for 2 unknown "
        "modes x 3 filters x all ordered vertex pairs; then the whole table twice more with caching on, on a "
        "re-built world; non-trivial = the queried vertex has a link "
        "(duality: the pair is joined in one of the two answers)")
    rep.assumptions = ["main table with caching off; the table is repeated twice with caching on (memos left by "
                       "earlier calls, including calls that raised, are read by later ones); ends are vertices",
                       "ERROR mode: when the filter rejects every unknown-class link at v, raising and not "
                       "raising are both accepted"]
    return rep.finish(confirm=replay)
