"""
C06 -- every traversal visits exactly the reachable in-universe vertices, once each.
(see egmc/trav.py for the per-state evaluation; engine G enumerates the graphs)
"""

from .. import engine_g, trav
from ..report import Report

PROP = "C06"
MODE = "C06"

SPACES = {
    "quick": [
        (dict(nv=3, maxl=2, classes=("D", "U", "O")), "FULL"),
        (dict(nv=3, maxl=3, minl=3, classes=("D", "U")), "REDUCED"),
        # two vertices at hop distance 2 with different parents need 5 vertices / 4 links
        (dict(nv=5, maxl=4, minl=4, classes=("U",), pairs="upper", self_loops=False), "LEAN"),
        # a vertex outside the universe next to a path of length 2 needs 4 vertices
        (dict(nv=4, maxl=3, minl=3, classes=("D",), self_loops=False), "REDUCED"),
        # many links over few pairs (stack / queue growth, repeated neighbours): up to 8 links
        (dict(nv=3, maxl=8, minl=4, classes=("D",), pairs=[(0, 1), (0, 2)]), "REDUCED"),
        (dict(nv=3, maxl=6, minl=4, classes=("D",), pairs=[(0, 1), (0, 2), (1, 2)]), "REDUCED"),
        # the last vertex is a twin of the first (distinct object, same uid)
        (dict(nv=3, maxl=3, classes=("D", "U"), twin=True), "REDUCED"),
    ],
    "thorough": [
        (dict(nv=5, maxl=4, minl=4, classes=("D",), self_loops=False), "LEAN"),
        (dict(nv=5, maxl=4, minl=4, classes=("U",), self_loops=False), "LEAN"),
        (dict(nv=3, maxl=3, classes=("D", "U", "O")), "FULL"),
        (dict(nv=4, maxl=3, minl=3, classes=("D", "U", "O")), "REDUCED"),
        (dict(nv=3, maxl=4, minl=4, classes=("D", "U")), "REDUCED"),
        (dict(nv=3, maxl=2, classes=("D", "U", "O"), mutations=True), "FULL"),
        (dict(nv=4, maxl=3, classes=("D", "U"), twin=True), "REDUCED"),
    ],
}
CFG = {"FULL": trav.FULL, "REDUCED": trav.REDUCED, "LEAN": trav.LEAN, "FAMILY": trav.FAMILY, "FALSY": trav.FALSY}
# deterministic shapes at a ladder of sizes
SPACES["quick"] += [(sp, "FAMILY") for sp in engine_g.family_specs(list(range(4, 13)) + [16, 17])]
SPACES["thorough"] += [(sp, "FAMILY") for sp in engine_g.family_specs(list(range(4, 13)) + [16, 17, 32, 33])]
_cfgname = None


def _plain(spec):
    return {k: (list(v) if isinstance(v, tuple) else v) for k, v in spec.items() if k != "explicit"}


def per_state(spec, seq, w):
    w_b = None
    if MODE == "C07":
        w_b, _ = engine_g.build(spec, seq, validate=False)
    ev, nt, viols = trav.evaluate(spec, seq, w, CFG[_cfgname], MODE, w_b)
    if MODE == "C06" and CFG[_cfgname]["universes"] != "none-only" and w.l:
        ev2, nt2, viols2 = trav.edit_leg(spec, seq, w, CFG[_cfgname])
        ev, nt, viols = ev + ev2, nt + nt2, viols + viols2
    sq = [list(o) for o in seq]
    out = [(fp, {"seq": sq, "space": _plain(spec), "cfg": _cfgname, "case": case}) for fp, case in viols]
    if _cfgname == "FULL":
        # the same evaluation with vertices whose truth value is False (a container-like vertex subclass):
        # a traversal must treat them like any other vertex
        spec_f = dict(spec, vclasses=["FalsyLen"] * spec["nv"])
        w_f, _ = engine_g.build(_with_classes(spec_f), seq, validate=False)
        wb_f = engine_g.build(_with_classes(spec_f), seq, validate=False)[0] if MODE == "C07" else None
        ev2, nt2, viols2 = trav.evaluate(spec, seq, w_f, trav.FALSY, MODE, wb_f)
        ev, nt = ev + ev2, nt + nt2
        out += [(fp + "|vertexclass=falsy", {"seq": sq, "space": _plain(spec), "cfg": "FALSY", "case": case,
                                               "vclasses": "FalsyLen"}) for fp, case in viols2]
    return ev, nt, out, None


def _with_classes(spec):
    from ..fixtures_mod import FalsyLenVertex
    if spec.get("vclasses") and isinstance(spec["vclasses"][0], str):
        return dict(spec, vclasses=[FalsyLenVertex] * spec["nv"])
    return spec


def replay(rec, verbose=False, mode=None):
    mode = mode or MODE
    spec = rec["space"]
    seq = [tuple(o) for o in rec["seq"]]
    if rec.get("vclasses"):
        spec = _with_classes(dict(spec, vclasses=[rec["vclasses"]] * spec["nv"]))
        w, ok = engine_g.build(spec, seq, validate=False)
    else:
        w, ok = engine_g.build(spec, seq)
    w_b = engine_g.build(spec, seq, validate=False)[0] if mode == "C07" else None
    if rec["case"][0] == "edit":
        ev, nt, viols = trav.edit_leg(spec, seq, w, dict(CFG[rec["cfg"]], dirs=(rec["case"][2],)))
        hits = [fp for fp, case in viols if case == rec["case"]]
        if verbose:
            print("  graph ops:", seq)
            print("  caching on; universe of all vertices; case (traversal, direction, side of the membership "
                  "change, vertex taken out, phase, start):", rec["case"][1:])
            print("  verdict:", hits)
        return bool(hits)
    tname, s, uname, dn, un, vn, rn = rec["case"]
    cfg = dict(CFG[rec["cfg"]])
    if str(rn).startswith("outside-"):
        cfg.update(dirs=(dn,), unks=(un,), via=(vn,), res=("none",), res_with_via=("none",))
    else:
        cfg.update(dirs=(dn,), unks=(un,), via=(vn,), res=(rn,), res_with_via=(rn,))
    ev, nt, viols = trav.evaluate(spec, seq, w, cfg, mode, w_b)
    hits = [fp for fp, case in viols if case == rec["case"]]
    if verbose:
        from ..structure import observe
        print("  graph ops:", seq)
        print("  links (ends):", observe(w)["lv"], observe(w)["cl"])
        print(f"  {tname}(universe={uname}, start=v{s}, direction={dn}, unknown={un}, ff_via={vn}, ff_result={rn})")
        print("  verdict:", hits)
    return bool(hits)


def run(tier, seed, log, prop=PROP, mode=MODE, rule=None):
    global _cfgname
    rep = Report(prop, tier, seed)
    results = []
    for spec, cfgname in SPACES[tier]:
        _cfgname = cfgname
        res = engine_g.explore(spec, per_state, seed=seed, log=log)
        for fp, (n, rec) in res.viols.items():
            rep.add(fp, rec, n)
        sp = _plain(spec)
        sp["configuration_product"] = {k: list(v) if isinstance(v, tuple) else v for k, v in CFG[cfgname].items()}
        results.append((res, sp))
    rep.coverage = engine_g.merge_coverage(results, rule or RULE)
    rep.assumptions = [
        "caching off; ends are vertices; start is a member of the universe (or universe None)",
        "membership-edit leg (C06 only, spaces with universes): caching ON, universe of all vertices, one member "
        "taken out and put back from either side, all three traversals from every start in each phase",
        "reachability and order oracles are driven by the real neighbors() (as the property states)",
        "termination guard: more than 100*(|V|+|E|+1) neighbour expansions or yielded elements is reported "
        "as non-termination",
    ]
    import sys
    # C07 is about determinism: a violation that only shows in some replays (an order that depends
    # on id() or hashing) is still a violation, so one reproduction out of six suffices there
    extra = dict(min_repro=1, tries=8) if prop == "C07" else {}
    return rep.finish(confirm=sys.modules[f"egmc.props.{prop.lower()}"].replay, **extra)


RULE = ("(plus, per state: every traversal from every start OUTSIDE the universe -- no non-member may be listed; a "
        "membership-edit leg with caching on -- aborted traversals first, then each vertex taken out of and put back "
        "into a universe of all vertices, from either side, all traversals from every start in each phase vs the "
        "reach oracle; and the first space again with falsy vertices) "
        "every ordered multigraph of each space; per state every start x universe (None and subsets containing "
        "the start) x 3 directions x unknown modes x ff_via filters (and ff_result filters when ff_via is None) "
        "x 3 traversals: list form vs reach closure (no repetition, starts with start, exact set, ff_result only "
        "removes), generator form vs list form, NotImplementedError propagation, termination; non-trivial = more "
        "than the start is reachable or an unknown link raises")
