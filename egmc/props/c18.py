"""
C18 -- true singletons: at most one live instance per class between clears.

Engine H (rebuild mode).  Classes P, Q, R(P) and N (whose __init__ constructs Q:
nesting); ops: construct with each argument shape (one makes __init__ raise),
clear_true_singleton(cls) for each class, clear_true_singleton().  The world
carries the reference model class -> (instance, first arguments).
"""

from edgegraph.structure import singleton as S

from .. import engine_h
from ..report import Report

PROP = "C18"

ARGS = {
    "none": ((), {}),
    "p1": ((1,), {}),
    "p2": ((2,), {}),
    "k1": ((), {"k": 1}),
    "boom": (("boom",), {}),
}

POOLS = {
    # F: a class whose instances are falsy (an empty container: __len__ returns 0)
    # L: a class whose __init__ constructs Q and raises afterwards (when asked to)
    "quick": [dict(classes=["P", "Q", "R(P)", "N", "M", "F", "L"], args=["none", "p1", "k1", "boom"])],
    "thorough": [dict(classes=["P", "Q", "R(P)", "N", "M", "R2(R)", "F", "L"], args=["none", "p1", "p2", "k1", "boom"])],
}


class InitBoom(Exception):
    pass


def _state_attrs(holder):
    import types
    for name in sorted(vars(holder)):
        if name.startswith("__") and name.endswith("__"):
            continue
        val = vars(holder)[name]
        if isinstance(val, (types.FunctionType, types.MethodType, classmethod, staticmethod, property)):
            continue
        if callable(val) and not isinstance(val, type):
            continue
        yield name, val


_PRISTINE = {}


def _restore_in_place(val, pristine):
    import copy
    if isinstance(val, dict):
        val.clear()
        val.update(copy.deepcopy(pristine))
    elif isinstance(val, list):
        val[:] = copy.deepcopy(pristine)
    elif isinstance(val, set):
        val.clear()
        val.update(copy.deepcopy(pristine))
    elif hasattr(val, "__dict__"):
        fresh = copy.deepcopy(pristine)
        vars(val).clear()
        vars(val).update(vars(fresh))
    else:
        return False
    return True


def _reset_true_singleton_state():
    """
    Bring the registry of the TrueSingleton metaclass back to what it was when this module was
    imported (no class has an instance), whatever its private representation is: a dict, or a helper
    object holding one.  Done in place where possible, otherwise by re-binding the attribute.
    """
    import copy
    for name, val in list(_state_attrs(S.TrueSingleton)):
        if name not in _PRISTINE:
            try:
                _PRISTINE[name] = copy.deepcopy(val)     # first sight = import time = empty registry
            except Exception:  # noqa: BLE001
                _PRISTINE[name] = None
        if _PRISTINE[name] is None:
            continue
        if not _restore_in_place(val, _PRISTINE[name]):
            setattr(S.TrueSingleton, name, copy.deepcopy(_PRISTINE[name]))


_reset_true_singleton_state()      # records the pristine registry before any class exists


class World:
    def __init__(self, spec):
        _reset_true_singleton_state()
        self.spec = spec
        self.total_inits = 0
        world = self

        def mk(name, bases=(), nested=None, swallow=None, falsy=False, late_boom=False):
            def __init__(self, *a, **k):
                world.total_inits += 1
                self.init_count = getattr(self, "init_count", 0) + 1
                self.a = a
                self.k = dict(k)
                if a and a[0] == "boom" and not late_boom:
                    raise InitBoom()
                if nested is not None:
                    self.inner = world.cls[world.names.index(nested)]()
                    world.last_inner = self.inner
                if a and a[0] == "boom":
                    raise InitBoom()       # late: after another singleton has been constructed
                if swallow is not None:
                    # a nested construction that fails, and whose failure this __init__ survives
                    try:
                        world.cls[world.names.index(swallow)]("boom")
                    except InitBoom:
                        pass
            body = {"__init__": __init__}
            if falsy:
                body["__len__"] = lambda self: 0
            return S.TrueSingleton(name, bases, body)

        self.names = []
        self.cls = []
        for n in spec["classes"]:
            if n == "P":
                c = mk("P")
            elif n == "Q":
                c = mk("Q")
            elif n == "R(P)":
                c = type(self.cls[self.names.index("P")])("R", (self.cls[self.names.index("P")],), {})
            elif n == "R2(R)":
                c = type(self.cls[self.names.index("R(P)")])("R2", (self.cls[self.names.index("R(P)")],), {})
            elif n == "N":
                c = mk("N", nested="Q")
            elif n == "M":
                c = mk("M", swallow="Q")
            elif n == "F":
                c = mk("F", falsy=True)
            elif n == "L":
                c = mk("L", nested="Q", late_boom=True)
            self.names.append(n)
            self.cls.append(c)
        self.last_inner = None
        self.model = [None] * len(self.cls)      # instance or None
        self.keep = []


def real_state(w):
    """every non-dunder, non-callable attribute of the TrueSingleton metaclass (not only the known table)"""
    import types

    def cv(x):
        if isinstance(x, (int, float, str, bytes, bool, type(None))):
            return (type(x).__name__, x)
        if isinstance(x, type):
            return ("cls", w.names[w.cls.index(x)] if x in w.cls else x.__name__)
        if isinstance(x, dict):
            keyed = sorted(((repr(cv(k)), v) for k, v in x.items()), key=lambda kv: kv[0])
            return ("dict",) + tuple((k, cv(v)) for k, v in keyed)
        if isinstance(x, (list, tuple)):
            return (type(x).__name__,) + tuple(cv(e) for e in x)
        if isinstance(x, (set, frozenset)):
            return ("set",) + tuple(sorted(repr(cv(e)) for e in x))
        if any(isinstance(x, c) for c in w.cls):
            return ("inst", type(x).__name__, getattr(x, "init_count", None))
        if hasattr(x, "__dict__") and not isinstance(x, (types.FunctionType, types.ModuleType)):
            if id(x) in stack:
                return ("cycle", type(x).__name__)
            stack.append(id(x))
            try:
                return ("obj", type(x).__name__) + tuple((k, cv(v)) for k, v in sorted(vars(x).items()))
            finally:
                stack.pop()
        return ("other", type(x).__name__)

    stack = []

    out = []
    # the metaclass itself and every class of the pool (a class may shadow the registry privately)
    for hname, holder in [("TrueSingleton", S.TrueSingleton)] + list(zip(w.names, w.cls)):
        for name in sorted(vars(holder)):
            if name.startswith("__") and name.endswith("__"):
                continue
            val = vars(holder)[name]
            if isinstance(val, (types.FunctionType, types.MethodType, classmethod, staticmethod, property)):
                continue
            if callable(val) and not isinstance(val, type):
                continue
            out.append((hname, name, cv(val)))
    # plus the reference model (which classes have a live instance): states with different live
    # classes are different states whatever the library's private representation lets this walk see
    return (tuple(out), tuple(m is not None for m in w.model))


def live_classes(system, hist):
    """
    Which classes have a live instance after `hist`, found out by behaviour: on a world re-built from
    the history (one per class, the probe changes the state), construct the class without arguments;
    it has a live instance exactly when no __init__ runs.
    """
    live = []
    n = len(system.initial().cls)
    for c in range(n):
        w2 = engine_h.build(system, hist)
        before = w2.total_inits
        try:
            w2.cls[c]()
        except Exception:  # noqa: BLE001
            pass
        if w2.total_inits == before:
            live.append(w2.names[c])
    return sorted(live)


def dead_instances(w):
    return [o for o in w.keep if not any(o is m for m in w.model)]


class Sys:
    rebuild = True

    def __init__(self, spec):
        self.spec = spec
        self.current_history = ()

    def initial(self):
        return World(self.spec)

    def ops(self, w):
        out = []
        for c in range(len(w.cls)):
            for a in self.spec["args"]:
                out.append(("new", c, a))
        for c in range(len(w.cls)):
            out.append(("clear", c))
        out.append(("clear_all",))
        return out

    def apply(self, w, op):
        w.step_bad = []
        k = op[0]
        if k == "new":
            c, a = op[1], ARGS[op[2]]
            had = w.model[c]
            qi = w.names.index("Q") if "Q" in w.names else None
            nested = w.names[c] in ("N", "L")
            swallow = w.names[c] == "M"
            before = w.total_inits
            try:
                o = w.cls[c](*a[0], **a[1])
            except InitBoom:
                if had is not None:
                    w.step_bad.append("init-ran-although-an-instance-is-live")
                elif op[2] != "boom":
                    w.step_bad.append("unexpected-exception")
                elif w.names[c] == "L" and w.model[qi] is None:
                    # the failing __init__ had constructed Q before it raised: Q is live from now on
                    w.model[qi] = w.last_inner
                    w.keep.append(w.last_inner)
                # a failed construction must leave no instance: the model stays None
                return ("exc", "InitBoom")
            except Exception as e:  # noqa: BLE001
                w.step_bad.append(f"raised-{type(e).__name__}")
                return ("exc", type(e).__name__)
            w.keep.append(o)
            ran = w.total_inits - before
            if had is not None:
                if o is not had:
                    w.step_bad.append("second-instance-between-clears")
                if ran:
                    w.step_bad.append("init-ran-again")
            else:
                if op[2] == "boom":
                    w.step_bad.append("failing-init-did-not-propagate")
                if any(o is m for m in w.model if m is not None):
                    w.step_bad.append("instance-shared-between-classes")
                elif any(o is old for old in w.keep[:-1]):
                    w.step_bad.append("cleared-instance-returned-again")
                if type(o) is not w.cls[c]:
                    w.step_bad.append("returned-object-is-not-instance-of-called-class")
                expect_runs = 1
                if nested and w.model[qi] is None:
                    expect_runs = 2
                if swallow and w.model[qi] is None:
                    expect_runs = 2      # Q's __init__ ran (and failed); Q must still have no instance
                if ran != expect_runs or getattr(o, "init_count", None) != 1:
                    w.step_bad.append("init-count")
                elif o.a != a[0] or o.k != a[1]:
                    w.step_bad.append("init-arguments-not-those-of-first-call")
                w.model[c] = o
                if nested:
                    inner = getattr(o, "inner", None)
                    if w.model[qi] is None:
                        w.model[qi] = inner
                        w.keep.append(inner)
                    elif inner is not w.model[qi]:
                        w.step_bad.append("nested-construction-made-second-instance")
            return ("ret", "instance")
        try:
            if k == "clear":
                S.clear_true_singleton(w.cls[op[1]])
                w.model[op[1]] = None
            else:
                S.clear_true_singleton()
                w.model = [None] * len(w.cls)
            return ("ret", None)
        except Exception as e:  # noqa: BLE001
            w.step_bad.append(f"clear-raised-{type(e).__name__}")
            return ("exc", type(e).__name__)

    def canon(self, w):
        return real_state(w)

    def check(self, pre, op, post, obs):
        bad = list(post.step_bad)
        # exactly the model's live classes must answer a construction without running __init__
        live_model = sorted(post.names[i] for i, m in enumerate(post.model) if m is not None)
        if live_classes(self, tuple(self.current_history) + (op,)) != live_model:
            bad.append("live-classes-differ-from-model")
        if not bad:
            return []
        had = pre.model[op[1]] is not None if op[0] != "clear_all" else any(m is not None for m in pre.model)
        cname = "" if op[0] == "clear_all" else pre.names[op[1]]
        arg = op[2] if op[0] == "new" else ""
        others = sum(1 for i, m in enumerate(pre.model) if m is not None and (op[0] == "clear_all" or i != op[1]))
        fp = f"{op[0]}|{cname}|{arg}|{'live' if had else 'none'}|others-live={min(others, 1)}|{'+'.join(sorted(set(bad)))}"
        return [(fp, {"op": list(op), "obs": obs, "step": post.step_bad, "model_live": live_model,
                      "real": real_state(post)})]

    def nontrivial(self, pre, op, post, obs):
        return any(m is not None for m in pre.model)


def replay(rec, verbose=False):
    s = Sys(rec["pool"])
    w = s.initial()
    hist = [tuple(op) for op in rec["history"]]
    pre = None
    for op in hist[:-1]:
        s.apply(w, op)
    import copy
    pre = World.__new__(World)
    pre.model = list(w.model)
    pre.names = list(w.names)
    obs = s.apply(w, hist[-1])
    s.current_history = tuple(hist[:-1])
    bad = s.check(pre, hist[-1], w, obs)
    if verbose:
        print("  history:", hist)
        print("  last call ->", obs, " step verdicts:", w.step_bad)
        print("  real table:", real_state(w))
        print("  verdict:", [b[0] for b in bad])
    return bool(bad)


def run(tier, seed, log):
    rep = Report(PROP, tier, seed)
    tot = dict(states=0, transitions=0, validated=0, nontrivial=0, outcomes=0)
    pools_ev, samples = [], []
    exhaustive = True
    for spec in POOLS[tier]:
        log(f"[{PROP}] pool {spec}")
        res = engine_h.explore(Sys(spec), seed=seed, log=log)
        for fp, (n, rec) in res.viols.items():
            rec = dict(rec)
            rec["pool"] = spec
            rep.add(fp, rec, n)
        tot["states"] += res.states
        tot["transitions"] += res.transitions
        tot["validated"] += res.validated
        tot["nontrivial"] += res.nontrivial
        tot["outcomes"] += len(res.outcomes)
        exhaustive = exhaustive and res.exhaustive
        pools_ev.append({"pool": spec, "states": res.states, "transitions": res.transitions,
                         "max_depth": res.depth, "fixpoint": res.exhaustive, "cap_hit": res.cap})
        samples += [{"pool": spec, "history": h} for h in res.sample_histories[-3:]]
    rep.coverage = {
        "states": tot["states"], "transitions": tot["transitions"],
        "traces_validated_against_impl": tot["validated"],
        "evaluations": tot["transitions"],
        "distinct_nontrivial": tot["nontrivial"],
        "rule": "every (state, op) pair over construct (each argument shape, one raising) / clear(cls) / "
                "clear() for every class of the pool, BFS to fixpoint, every transition replayed from scratch; "
                "non-trivial = some class has a live instance in the pre-state",
        "exhaustive": exhaustive, "fixpoint": exhaustive, "pools": pools_ev,
        "distinct_observed_outcomes": tot["outcomes"], "samples": samples,
    }
    rep.assumptions = ["bounded pool of classes (a subclass, a nested constructor) and argument shapes",
                       "states merged on every attribute of the TrueSingleton metaclass and of the pool classes (helper objects "
                       "are walked through their attributes) together with the model's set of live classes"]
    return rep.finish(confirm=replay)
