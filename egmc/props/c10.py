"""
C10 -- nrpickler round-trips any graph to an isomorphic, usable, detached copy.

(i)   Shapes, exhaustively: every state of three engine-H explorations (link
      shapes with subclasses, cold/warm memos and both flag values; universe
      nesting incl. self-membership; runtime attributes incl. one list shared by
      two vertices) x root in {universe, vertex, link} x pickle protocols x
      loader in {pickle.loads, dill.loads} (+ dump(file)).  Oracle: the
      identity-aware canonical form (egmc.canon, uids kept) of the object graph
      reachable from the root is equal for original and copy (pointed
      object-graph isomorphism: classes, uids, attributes, every list order,
      sharing); no object of the copy is an object of the original; the query
      battery (by uid) answers identically.
(ii)  Fresh interpreter: every state's bytes are loaded in new processes with the
      flag off and on, which print canonical form + battery; compared with the
      parent's.
(iii) Size/depth ladder: chains, rings, stars, complete graphs, binary trees and
      chains of nested universes of N vertices under sys.setrecursionlimit(300).
"""

import base64
import io
import json
import os
import pickle
import subprocess
import sys

import dill

from edgegraph.structure import Vertex, Universe, DirectedEdge, UnDirectedEdge
from edgegraph.traversal import helpers, breadthfirst, depthfirst
from edgegraph.output import nrpickler

from .. import engine_h, canon as _canon
from ..fixtures_mod import VA, NB_FILTERS, DIRS, UNKS
from ..report import Report, HarnessError
from ..structure import (Alphabet, SWorld, apply_op, canon_world, observe, inv_links, inv_members,
                         memo_attrs, memo_is_warm)

PROP = "C10"

POOLS = {
    "quick": [
        dict(name="links", alpha=dict(nv=2, maxl=2, maxar=2, classes=("D", "U", "Ds"), raw=False, bad=False,
                                      none_ends=False, explicit_ops=False), ops=("flag", "warm", "unlink")),
        dict(name="universes", alpha=dict(nv=2, maxl=0, maxar=2, classes=("D",), raw=False, bad=False,
                                          none_ends=False, explicit_ops=False, setters=False, nu=2, membership=True),
             ops=("prelink",)),
        dict(name="attributes", alpha=dict(nv=2, maxl=1, maxar=2, classes=("U",), raw=False, bad=False,
                                           none_ends=False, explicit_ops=False, setters=False),
             ops=("attrs", "flag", "warm")),
    ],
}
POOLS["thorough"] = [
    dict(POOLS["quick"][0], alpha=dict(POOLS["quick"][0]["alpha"], none_ends=True)),
    dict(name="links3", alpha=dict(nv=3, maxl=2, maxar=2, classes=("D", "U"), raw=False, bad=False,
                                   none_ends=False, explicit_ops=False), ops=("flag", "warm")),
    POOLS["quick"][1],
    dict(name="universes+links", alpha=dict(nv=2, maxl=1, maxar=2, classes=("D",), raw=False, bad=False,
                                            none_ends=False, explicit_ops=False, setters=False, nu=2, membership=True),
         ops=()),
    POOLS["quick"][2],
]
PROTOCOLS = {"quick": (0, 2, 4, 5), "thorough": (0, 1, 2, 3, 4, 5)}
KEYS = [("FWD", "NBR", "none"), ("ANY", "NBR", "selv"), ("BWD", "NON", "none")]
_TIER = "quick"


def roots_of(w):
    r = []
    if w.u:
        r.append(("universe", w.u[0]))
    r.append(("vertex", w.v[-1]))
    if w.l:
        r.append(("link", w.l[0]))
    return r


def iso_form(root):
    # the private neighbour memo is derived data, not an attribute in the property's sense: a
    # pickler may or may not carry it over.  What the copy must do is *answer* like the original,
    # which the query battery checks (with caching as it is, so a carried-over memo is exercised).
    return _canon.canon_graph([root], uid="keep", return_nodes=True, skip_attrs=memo_attrs())


def uid_battery(nodes):
    """query answers keyed by uid over every vertex among the reachable objects"""
    verts = sorted((n for n in nodes if isinstance(n, Vertex)), key=lambda v: v.uid)
    out = {}

    def u(x):
        return None if x is None else getattr(x, "uid", "?")

    for v in verts:
        for (d, un, f) in KEYS:
            try:
                out[("nb", v.uid, d, un, f)] = [u(x) for x in helpers.neighbors(v, DIRS[d], UNKS[un], NB_FILTERS[f])]
            except Exception as e:  # noqa: BLE001
                out[("nb", v.uid, d, un, f)] = "exc:" + type(e).__name__
        for name, fn in (("bft", breadthfirst.bft), ("dft_recursive", depthfirst.dft_recursive),
                         ("dft_iterative", depthfirst.dft_iterative)):
            try:
                out[(name, v.uid)] = [u(x) for x in fn(None, v, unknown_handling=helpers.LNK_UNKNOWN_NEIGHBOR)]
            except Exception as e:  # noqa: BLE001
                out[(name, v.uid)] = "exc:" + type(e).__name__
        for name, fn in (("bfs", breadthfirst.bfs), ("dfs_recursive", depthfirst.dfs_recursive),
                         ("dfs_iterative", depthfirst.dfs_iterative)):
            try:
                out[(name, v.uid)] = u(fn(None, v, "i", 1))
            except Exception as e:  # noqa: BLE001
                out[(name, v.uid)] = "exc:" + type(e).__name__
    return out


def roundtrip_check(root, protocol, loader, via_file, flag):
    """Returns symptom or None."""
    Vertex.NEIGHBOR_CACHING = flag
    form0, nodes0 = iso_form(root)
    try:
        if via_file:
            f = io.BytesIO()
            nrpickler.dump(root, f, protocol=protocol)
            data = f.getvalue()
        else:
            data = nrpickler.dumps(root, protocol=protocol)
    except RecursionError:
        return "dumps-RecursionError"
    except Exception as e:  # noqa: BLE001
        return f"dumps-raised-{type(e).__name__}"
    if iso_form(root)[0] != form0:
        return "dumps-changed-the-original"
    try:
        copy_ = (pickle.loads if loader == "pickle" else dill.loads)(data)
    except Exception as e:  # noqa: BLE001
        return f"loads-raised-{type(e).__name__}"
    form1, nodes1 = iso_form(copy_)
    if form1 != form0:
        return classify(form0, form1)
    ids0 = {id(n) for n in nodes0}
    if any(id(n) in ids0 for n in nodes1):
        return "copy-shares-an-object-with-the-original"
    Vertex.NEIGHBOR_CACHING = False          # reference answers; does not touch the original's memo
    b0 = uid_battery(nodes0)
    Vertex.NEIGHBOR_CACHING = flag
    b1 = uid_battery(nodes1)
    if b1 != uid_battery(nodes1):
        return "query-answers-on-the-copy-change-between-two-passes"
    if b0 != b1:
        return "query-answers-differ-on-the-copy"
    return None


def classify(f0, f1):
    d0, d1 = f0[1], f1[1]
    if len(d0) != len(d1):
        return "copy-has-different-number-of-objects(sharing-or-missing)"
    for a, b in zip(d0, d1):
        if a != b:
            if a[0] != b[0]:
                return "copy-object-kind-differs"
            if a[0] == "obj":
                if a[1:3] != b[1:3]:
                    return "copy-class-differs"
                an, bn = [k for k, _ in a[3]], [k for k, _ in b[3]]
                if an != bn:
                    return "copy-attribute-set-differs"
                for (k, x), (_, y) in zip(a[3], b[3]):
                    if x != y:
                        return f"copy-attribute-differs:{k if k.startswith('_') else 'user-attribute'}"
            return "copy-container-differs(order-or-content)"
    return "copy-differs"


# ---------------------------------------------------------------------------------------
class Sys:
    heavy_states = True
    # every transition replays its history from scratch instead of deep-copying the pre-state:
    # copy.deepcopy goes through the same __reduce_ex__/__getstate__ protocol as pickling, so a change
    # to that protocol (which is what this property is about) must not be able to corrupt the explorer
    rebuild = True

    def __init__(self, spec):
        self.spec = spec
        self.alpha = Alphabet(**spec["alpha"])

    def initial(self):
        a = self.alpha
        w = SWorld(a.nv, a.nu, vclasses=[Vertex, VA, Vertex][:a.nv])
        if a.nu == 0:
            w.u = [Universe(vertices=list(w.v), attributes={"i": 100})]
        if "prelink" in self.spec["ops"]:
            w.l.append(DirectedEdge(w.v[0], w.v[1]))
        return w

    def ops(self, w):
        out = []
        a = self.alpha
        for op in a.ops(w):
            if op[0] == "set_v1":
                continue
            if op[0] in ("rfu", "a2u"):
                continue            # membership from the universe side only (C02 covers both sides)
            out.append(op)
        extra = self.spec["ops"]
        if "unlink" in extra:
            out.append(("unlink", 0, a.nv - 1, True))
        if "warm" in extra:
            for i in range(a.nv):
                out.append(("warm", i))
        if "flag" in extra:
            out.append(("flag", not w.flag))
        if "attrs" in extra:
            out.append(("attr_scalar", 0))
            out.append(("attr_shared",))
            out.append(("attr_link",))
            out.append(("attr_tuple_cycle",))
            out.append(("attr_shared_empty",))
            out.append(("attr_peer_sets",))
        return out

    def apply(self, w, op):
        Vertex.NEIGHBOR_CACHING = w.flag
        k = op[0]
        if k == "warm":
            for (d, u, f) in KEYS:
                try:
                    helpers.neighbors(w.v[op[1]], DIRS[d], UNKS[u], NB_FILTERS[f])
                except Exception:  # noqa: BLE001
                    pass
            return ("ret", None)
        if k == "flag":
            w.flag = op[1]
            Vertex.NEIGHBOR_CACHING = w.flag
            return ("ret", None)
        if k == "attr_scalar":
            w.v[op[1]].tag = "t"
            w.v[op[1]].weight = 2.5
            return ("ret", None)
        if k == "attr_shared":
            shared = [1, "two", (3,)]
            w.v[0].sh = shared
            w.v[1].sh = shared
            w.v[1].d = {"k": shared}
            return ("ret", None)
        if k == "attr_shared_empty":
            # EMPTY containers shared by two owners / by two attributes of one (linked) vertex
            e, d, st = [], {}, set()
            w.v[0].e = e
            w.v[1].e = e
            w.v[0].d1 = d
            w.v[0].d2 = d
            w.v[0].st = st
            w.v[1].st = st
            return ("ret", None)
        if k == "attr_peer_sets":
            # a set and a frozenset of vertices that those vertices (and others) point back to
            peers = {w.v[1]}
            team = frozenset([w.v[1]])
            for v in w.v[:2]:
                v.peers = peers
                v.team = team
            return ("ret", None)
        if k == "attr_tuple_cycle":
            # a tuple that takes part in a cycle through a mutable: l = []; t = (l,); l.append(t)
            lst = []
            tup = (lst,)
            lst.append(tup)
            w.v[0].cyc = tup
            return ("ret", None)
        if k == "attr_link":
            if not w.l:
                return engine_h.SKIP
            w.l[0].label = "L"
            w.l[0].peer = w.v[0]
            return ("ret", None)
        return apply_op(w, op)

    def canon(self, w):
        return canon_world(w)

    def within_bounds(self, w):
        return self.alpha.within_bounds(w)

    def prune(self, pre, op, post, obs):
        return bool(inv_links(post) or inv_members(post))

    def check(self, pre, op, post, obs):
        return []

    def state_check(self, pre, op, post, obs):
        return state_roundtrips(post)

    def init_check(self, w):
        return state_roundtrips(w)


def attr_kinds(w):
    """which kinds of runtime attributes the state carries (part of the fingerprint: identifies the input)"""
    kinds = set()
    for v in w.v:
        d = vars(v)
        if "tag" in d:
            kinds.add("scalar")
        if "sh" in d:
            kinds.add("shared-list")
        if "cyc" in d:
            kinds.add("tuple-cycle")
        if "e" in d:
            kinds.add("shared-empty")
        if "peers" in d:
            kinds.add("set-and-frozenset-of-vertices-in-a-cycle")
    if any("peer" in vars(l) for l in w.l):
        kinds.add("link-attr")
    return "+".join(sorted(kinds)) or "none"


def state_roundtrips(w):
    out = []
    for rname, root in roots_of(w):
        for proto in PROTOCOLS[_TIER]:
            for loader in ("pickle", "dill"):
                for via_file in ((False, True) if proto == 4 and loader == "pickle" else (False,)):
                    bad = roundtrip_check(root, proto, loader, via_file, w.flag)
                    if bad:
                        memo = "warm" if any(memo_is_warm(v) for v in w.v) else "cold"
                        fp = (f"same-process|root={rname}|caching={'on' if w.flag else 'off'}|memo={memo}|"
                              f"attrs={attr_kinds(w)}|{bad}")
                        out.append((fp, {"root": rname, "protocol": proto, "loader": loader, "via_file": via_file}))
    if not out and w.u and len(w.v) >= 2:
        bad = detached_check(w)
        if bad:
            memo = "warm" if any(memo_is_warm(v) for v in w.v) else "cold"
            out.append((f"same-process|root=universe|caching={'on' if w.flag else 'off'}|memo={memo}|"
                        f"attrs={attr_kinds(w)}|{bad}", {"root": "universe", "protocol": 4, "loader": "pickle",
                                                       "via_file": False, "detached": True}))
    Vertex.NEIGHBOR_CACHING = w.flag
    return out


def detached_check(w):
    """
    The copy is DETACHED: with the original still alive in the same process (same uids on both sides),
    both warm, the copy is edited first and the original second (one new link each between their first and
    last vertex); each side must then answer for its own links.  Last thing done to a state.
    """
    Vertex.NEIGHBOR_CACHING = w.flag
    try:
        copy_ = pickle.loads(nrpickler.dumps(w.u[0], protocol=4))
    except Exception:  # noqa: BLE001
        return None                      # the round-trip legs report this
    cv = copy_.vertices
    ov = w.u[0].vertices
    if len(cv) != len(ov) or len(cv) < 2:
        return None
    kw = dict(direction_sensitive=helpers.DIR_SENS_FORWARD, unknown_handling=helpers.LNK_UNKNOWN_NEIGHBOR)
    for vs in (ov, cv):
        for v in vs:
            helpers.neighbors(v, **kw)                      # warm (a no-op with caching off)
    DirectedEdge(cv[0], cv[-1])
    DirectedEdge(ov[0], ov[-1])
    for side, vs in (("copy", cv), ("original", ov)):
        got = helpers.neighbors(vs[0], **kw)
        Vertex.NEIGHBOR_CACHING = False
        want = helpers.neighbors(vs[0], **kw)
        Vertex.NEIGHBOR_CACHING = w.flag
        if [id(x) for x in got] != [id(x) for x in want]:
            return f"after-editing-copy-then-original-the-{side}-answers-stale"
        if not any(x is vs[-1] for x in got):
            return f"after-editing-copy-then-original-the-{side}-misses-its-new-link"
    return None


N_RT = sum(1 for proto in (0, 2, 4, 5) for loader in (0, 1)) + 1


def replay(rec, verbose=False):
    global _TIER
    if rec.get("kind") == "ladder":
        bad = ladder_case(*rec["case"])
        if verbose:
            print("  ladder case", rec["case"], "->", bad)
        return bad is not None
    if rec.get("kind") == "mainclass":
        bad = main_class_case(*rec["case"], verbose=verbose)
        if verbose:
            print("  class defined in __main__ (pickled by value), case (class body, root, protocol):", rec["case"], "->", bad)
        return bad is not None
    if rec.get("kind") == "fresh":
        bad, _ = fresh_leg([tuple(tuple(o) for o in rec["history"])], rec["pool"], verbose=verbose)
        return bool(bad)
    if isinstance(rec.get("detail"), dict) and rec["detail"].get("detached"):
        s = Sys(rec["pool"])
        w = engine_h.build(s, [tuple(op) for op in rec["history"]])
        bad = detached_check(w)
        if verbose:
            print("  history:", rec["history"], " detached-copy leg ->", bad)
        return bad is not None
    s = Sys(rec["pool"])
    w = s.initial()
    hist = [tuple(op) for op in rec["history"]]
    for op in hist:
        s.apply(w, op)
    d = rec["detail"]
    root = dict(roots_of(w))[d["root"]]
    bad = roundtrip_check(root, d["protocol"], d["loader"], d["via_file"], w.flag)
    if verbose:
        print("  history:", hist, " caching:", w.flag)
        print(f"  root={d['root']} protocol={d['protocol']} loader={d['loader']} via_file={d['via_file']}")
        print("  verdict:", bad)
    Vertex.NEIGHBOR_CACHING = False
    return bad is not None


# ---- fresh-process leg ---------------------------------------------------------------
_CHILD = r"""
import sys, json, pickle, base64
from edgegraph.structure import Vertex
from egmc.props import c10
flag = sys.argv[1] == "on"
Vertex.NEIGHBOR_CACHING = flag
out = []
for line in sys.stdin:
    if not line.strip():
        continue
    try:
        obj = pickle.loads(base64.b64decode(line))
        form, nodes = c10.iso_form(obj)
        bat = c10.uid_battery(nodes)
        bat2 = c10.uid_battery(nodes)
        out.append([repr(form), repr(sorted(bat.items(), key=repr)) if bat == bat2 else "second-pass-differs"])
    except Exception as e:
        out.append(["crash:" + type(e).__name__, ""])
print(json.dumps(out))
"""


def fresh_leg(histories, spec, verbose=False):
    s = Sys(spec)
    blobs, expected, meta, early = [], [], [], []
    for h in histories:
        w = engine_h.build(s, h)
        Vertex.NEIGHBOR_CACHING = w.flag
        root = roots_of(w)[0][1]
        for proto in (0, 4):
            try:
                data = nrpickler.dumps(root, protocol=proto)
                form, nodes = iso_form(root)
                Vertex.NEIGHBOR_CACHING = False
                c = pickle.loads(data)
            except Exception as e:  # noqa: BLE001 - the same-process leg reports these; nothing to send
                Vertex.NEIGHBOR_CACHING = w.flag
                early.append((h, f"dump-for-fresh-interpreter|attrs={attr_kinds(w)}|dumps-or-loads-raised-{type(e).__name__}"))
                continue
            blobs.append(base64.b64encode(data).decode())
            cform, cnodes = iso_form(c)
            bat = uid_battery(cnodes)
            Vertex.NEIGHBOR_CACHING = w.flag
            expected.append([repr(form), repr(sorted(bat.items(), key=repr))])
            meta.append((h, proto))
    Vertex.NEIGHBOR_CACHING = False
    bad = list(early)
    for flag in (("off", "on") if blobs else ()):
        p = subprocess.run([sys.executable, "-c", _CHILD, flag], input="\n".join(blobs) + "\n",
                           capture_output=True, text=True, env=dict(os.environ))
        if p.returncode != 0:
            raise HarnessError(f"fresh interpreter failed: {p.stderr[-2000:]}")
        got = json.loads(p.stdout.strip().splitlines()[-1])
        if len(got) != len(blobs):
            raise HarnessError("fresh interpreter returned a different number of answers")
        for (h, proto), g, e in zip(meta, got, expected):
            if g != e:
                if g[0].startswith("crash:"):
                    sym = g[0]
                elif g[0] != e[0]:
                    sym = "object-graph-differs"
                else:
                    sym = "query-answers-differ" if g[1] != "second-pass-differs" else g[1]
                    if "exc:" in g[1] and "exc:" not in e[1]:
                        sym = "queries-raise:" + g[1].split("exc:")[1].split("'")[0]
                bad.append((h, f"fresh-interpreter|caching={flag}|{sym}"))
                if verbose:
                    print("  history", h, "protocol", proto, "fresh interpreter caching", flag, "->", sym)
    return bad, len(blobs) * 2



# ---- classes defined in __main__ (pickled by value) ---------------------------------------------
# A user's script defines its vertex / link subclasses in __main__; dill pickles such classes by
# value.  Finite case list: shape of the class body x root x protocol.  Each case is one script run in
# a fresh interpreter (dump), whose bytes are loaded in a second fresh interpreter that does NOT define
# the classes (load); both under a wall-clock limit (non-termination is a verdict).

MAIN_SHAPES = {
    "plain-method": "class MyV(Vertex):\n    def hello(self):\n        return ('hello', self.i)\n",
    "explicit-parent-init": "class MyV(Vertex):\n    def __init__(self, **kw):\n        Vertex.__init__(self, **kw)\n"
                            "    def hello(self):\n        return ('hello', self.i)\n",
    "zero-arg-super": "class MyV(Vertex):\n    def __init__(self, **kw):\n        super().__init__(**kw)\n"
                      "    def hello(self):\n        return ('hello', self.i)\n",
    "classmethod-and-property": "class MyV(Vertex):\n    count = 3\n    @classmethod\n    def make(cls, **kw):\n        return cls(**kw)\n"
                                "    @property\n    def twice(self):\n        return 2 * self.i\n"
                                "    def hello(self):\n        return ('hello', self.i)\n",
    "subclass-of-subclass": "class Base(Vertex):\n    def hello(self):\n        return ('hello', self.i)\n"
                            "class MyV(Base):\n    def __init__(self, **kw):\n        super().__init__(**kw)\n",
    "edge-subclass-too": "class MyV(Vertex):\n    def hello(self):\n        return ('hello', self.i)\n"
                         "class MyE(DirectedEdge):\n    def weight(self):\n        return 7\n",
}

# functions defined in __main__ (pickled by value too) that the graph refers to: (class body, set-up, check)
_PLAIN = MAIN_SHAPES["plain-method"]
MAIN_EXTRAS = {
    "lambda-attribute": (_PLAIN, "a.fn = lambda x: x + 1\n", "beh.append(a.fn(1) == 2)\n"),
    "closure-over-vertex": (_PLAIN, "a.fn = (lambda v: (lambda: v.i))(b)\n", "beh.append(a.fn() == 2 and a.fn.__closure__[0].cell_contents is b)\n"),
    "function-in-neighbour-memo-key": (
        _PLAIN + "def only_big(e, v2):\n    return v2.i > 1\n",
        "from edgegraph.traversal import helpers\nVertex.NEIGHBOR_CACHING = True\nhelpers.neighbors(a, filterfunc=only_big)\n",
        "from edgegraph.traversal import helpers\nbeh.append([x.i for x in helpers.neighbors(a)] == [2])\n"),
}
for _k, (_c, _s, _q) in MAIN_EXTRAS.items():
    MAIN_SHAPES[_k] = _c

_MAIN_DUMP = r"""
import sys, base64, json
from edgegraph.structure import Vertex, Universe, DirectedEdge
from edgegraph.output import nrpickler
%(classes)s
E = globals().get("MyE", DirectedEdge)
u = Universe()
a = MyV(attributes={"i": 1}, universes=[u])
b = MyV(attributes={"i": 2}, universes=[u])
c = Vertex(attributes={"i": 3}, universes=[u])
e1 = E(a, b); e2 = E(b, a); e3 = DirectedEdge(b, c)
a.tag = "t"
%(setup)s
root = {"universe": u, "vertex": a}[%(root)r]
import dill
blob = %(pickler)s.dumps(root, protocol=%(proto)d)
desc = {"uids": [x.uid for x in (a, b, c)], "classes": [type(x).__qualname__ for x in (a, b, c)],
        "links": [[type(l).__qualname__, l.vertices[0].uid, l.vertices[1].uid] for l in a.links + b.links],
        "members": [x.uid for x in u.vertices]}
print(json.dumps({"blob": base64.b64encode(blob).decode(), "desc": desc}))
"""

_MAIN_LOAD = r"""
import sys, base64, json, pickle
import dill                                                          # (registers what by-value pickles refer to)
from edgegraph.structure import Vertex, Universe, DirectedEdge      # what a loading script has at hand
d = json.loads(sys.stdin.read())
root = dill.loads(base64.b64decode(d["blob"]))      # by-value classes: dill's loader, for both picklers
a = root.vertices[0] if %(root)r == "universe" else root
u = a.universes[0]
vs = u.vertices
b, c = vs[1], vs[2]
desc = {"uids": [x.uid for x in (a, b, c)], "classes": [type(x).__qualname__ for x in (a, b, c)],
        "links": [[type(l).__qualname__, l.vertices[0].uid, l.vertices[1].uid] for l in a.links + b.links],
        "members": [x.uid for x in vs]}
ok = desc == d["desc"]
beh = []
beh.append(a.hello() == ("hello", 1) and b.hello() == ("hello", 2))
beh.append(a.tag == "t" and type(a) is type(b) and type(a) is not type(c))
n = type(a)(attributes={"i": 9})          # the re-created class can still be instantiated
beh.append(n.hello() == ("hello", 9))
if hasattr(type(a), "make"):
    beh.append(type(a).make(attributes={"i": 4}).twice == 8 and type(a).count == 3)
if type(a.links[0]).__qualname__ == "MyE":
    beh.append(a.links[0].weight() == 7)
%(check)s
print(json.dumps({"structure": ok, "behaviour": all(beh), "beh": beh}))
"""

MAIN_TIMEOUT = 30


def main_class_case(shape, root, proto, verbose=False):
    """
    Returns a symptom or None.  Differential: a case in which the stock dill.dumps fails the same
    judgement is outside what nrpickler can be asked for and is skipped.
    """
    bad = _main_class_run(shape, root, proto, "nrpickler", verbose)
    if bad and _main_class_run(shape, root, proto, "dill", False):
        return None
    return bad


def _main_class_run(shape, root, proto, pickler, verbose=False):
    env = dict(os.environ)
    setup, chk = MAIN_EXTRAS.get(shape, ("", "", ""))[1:]
    dump_src = _MAIN_DUMP % dict(classes=MAIN_SHAPES[shape], root=root, proto=proto, pickler=pickler, setup=setup)
    try:
        p = subprocess.run([sys.executable, "-c", dump_src], capture_output=True, text=True, env=env,
                           timeout=MAIN_TIMEOUT)
    except subprocess.TimeoutExpired:
        return "dumps-did-not-terminate"
    if p.returncode != 0:
        last = (p.stderr.strip().splitlines() or ["?"])[-1]
        if verbose:
            print(p.stderr[-1500:])
        return "dumps-raised-" + last.split(":")[0].split(".")[-1]
    payload = p.stdout.strip().splitlines()[-1]
    try:
        q = subprocess.run([sys.executable, "-c", _MAIN_LOAD % dict(root=root, check=chk)], input=payload, capture_output=True,
                           text=True, env=env, timeout=MAIN_TIMEOUT)
    except subprocess.TimeoutExpired:
        return "loads-did-not-terminate"
    if q.returncode != 0:
        last = (q.stderr.strip().splitlines() or ["?"])[-1]
        if verbose:
            print(q.stderr[-1500:])
        return "loads-or-use-raised-" + last.split(":")[0].split(".")[-1]
    r = json.loads(q.stdout.strip().splitlines()[-1])
    if not r["structure"]:
        return "copy-structure-differs"
    if not r["behaviour"]:
        return "copy-methods-or-class-unusable"
    return None


# ---- ladder ----------------------------------------------------------------------------
SHAPES = ("chain-directed", "chain-undirected", "ring", "star", "complete", "binary-tree", "nested-universes")


def build_shape(shape, n):
    vs = [Vertex(attributes={"i": i}) for i in range(n)]
    root = None
    if shape == "chain-directed":
        for a, b in zip(vs, vs[1:]):
            DirectedEdge(a, b)
    elif shape == "chain-undirected":
        for a, b in zip(vs, vs[1:]):
            UnDirectedEdge(a, b)
    elif shape == "ring":
        for a, b in zip(vs, vs[1:] + vs[:1]):
            DirectedEdge(a, b)
    elif shape == "star":
        for b in vs[1:]:
            DirectedEdge(vs[0], b)
    elif shape == "complete":
        for a in vs:
            for b in vs:
                if a is not b:
                    DirectedEdge(a, b)
    elif shape == "binary-tree":
        for i in range(1, n):
            UnDirectedEdge(vs[(i - 1) // 2], vs[i])
    elif shape == "nested-universes":
        unis = [Universe(attributes={"i": 1000 + i}) for i in range(n)]
        for a, b in zip(unis, unis[1:]):
            a.add_vertex(b)
        unis[-1].add_vertex(vs[0])
        return unis[0]
    return Universe(vertices=vs)


def _rejected_dumps():
    """
    Serialisations that are rejected (TypeError: cannot pickle a generator), of small graphs: one with the
    unpicklable value on a vertex, one with it in the body of a class that is pickled by value (a class
    defined inside a function).  A failed dumps must not spoil a later one.
    """
    def gen():
        yield 1

    class Local(Vertex):                 # not importable: dill pickles it by value
        serials = gen()

        def __init__(self, **kw):
            super().__init__(**kw)

    plain = Vertex(attributes={"i": 0})
    plain.stream = gen()
    for obj in (plain, Local(attributes={"i": 1})):
        for proto in (2, 4):
            try:
                nrpickler.dumps(obj, protocol=proto)
            except Exception:  # noqa: BLE001
                pass


def ladder_case(shape, n, limit, protocol):
    old = sys.getrecursionlimit()
    root = build_shape(shape, n)
    _rejected_dumps()
    try:
        if limit:
            sys.setrecursionlimit(limit)
        try:
            data = nrpickler.dumps(root, protocol=protocol)
        except RecursionError:
            return "dumps-RecursionError"
        except Exception as e:  # noqa: BLE001
            return f"dumps-raised-{type(e).__name__}"
        try:
            c = pickle.loads(data)
        except RecursionError:
            return "loads-RecursionError"
        except Exception as e:  # noqa: BLE001
            return f"loads-raised-{type(e).__name__}"
    finally:
        sys.setrecursionlimit(old)
    f0, n0 = iso_form(root)
    f1, n1 = iso_form(c)
    if f0 != f1:
        return classify(f0, f1)
    ids0 = {id(x) for x in n0}
    if any(id(x) in ids0 for x in n1):
        return "copy-shares-an-object-with-the-original"
    return None


def run(tier, seed, log):
    global _TIER
    _TIER = tier
    rep = Report(PROP, tier, seed)
    tot = dict(states=0, transitions=0, validated=0, rts=0, fresh=0, outcomes=0)
    pools_ev, samples = [], []
    exhaustive = True
    per_state_rts = None
    for spec in POOLS[tier]:
        log(f"[{PROP}] pool {spec['name']}")
        sysm = Sys(spec)
        res = engine_h.explore(sysm, seed=seed, log=log, collect=True)
        for fp, (n, rec) in res.viols.items():
            rec = dict(rec)
            rec["pool"] = spec
            rep.add(fp, rec, n)
        rts = 0
        for h in res.all_histories:
            w = engine_h.build(sysm, h)
            rts += len(roots_of(w)) * (2 * len(PROTOCOLS[tier]) + 1)
        bad, nfresh = fresh_leg(res.all_histories, spec)
        for h, sym in bad:
            rep.add(sym, {"kind": "fresh", "history": [list(o) for o in h], "pool": spec})
        tot["states"] += res.states
        tot["transitions"] += res.transitions
        tot["validated"] += res.validated
        tot["rts"] += rts
        tot["fresh"] += nfresh
        tot["outcomes"] += len(res.outcomes)
        exhaustive = exhaustive and res.exhaustive
        pools_ev.append({"pool": spec["name"], "alphabet": spec["alpha"], "states": res.states,
                         "transitions": res.transitions, "round_trips": rts, "fresh_interpreter_loads": nfresh,
                         "max_depth": res.depth, "fixpoint": res.exhaustive, "cap_hit": res.cap,
                         "wall_s": round(res.wall, 1)})
        samples += [{"pool": spec["name"], "history": h} for h in res.sample_histories[-2:]]
    Vertex.NEIGHBOR_CACHING = False
    sizes = (50, 500, 2000) if tier == "quick" else (50, 500, 2000, 5000)
    ladder = []
    for shape in SHAPES:
        for n in sizes:
            if shape == "complete" and n > 50:
                continue
            for limit in (300, 0):
                for proto in ((4,) if n >= 2000 else (0, 4)):
                    if n >= 5000 and limit == 0:
                        continue
                    ladder.append((shape, n, limit, proto))
    from .. import engine_e

    def lc(case):
        bad = ladder_case(*case)
        if bad:
            return 1, 1, [(f"ladder|{case[0]}|limit={'lowered' if case[2] else 'default'}|{bad}",
                           {"kind": "ladder", "case": list(case), "history": []})], bad
        return 1, 1, [], "ok"

    lres = engine_e.explore(ladder, lc, seed=seed, log=log, label="size/depth ladder")
    for fp, (n, rec) in lres.viols.items():
        rep.add(fp, rec, n)
    main_cases = [(sh, root, proto) for sh in MAIN_SHAPES for root in ("universe", "vertex")
                  for proto in ((2, 4) if tier == "quick" else (0, 1, 2, 3, 4, 5))]

    def mc(case):
        bad = main_class_case(*case)
        if bad:
            return 1, 1, [(f"class-defined-in-__main__|body={case[0]}|root={case[1]}|{bad}",
                           {"kind": "mainclass", "case": list(case), "history": []})], bad
        return 1, 1, [], "ok"

    mres = engine_e.explore(main_cases, mc, seed=seed, log=log, label="classes defined in __main__")
    for fp, (n, rec) in mres.viols.items():
        rep.add(fp, rec, n)
    rep.coverage = {
        "states": tot["states"], "transitions": tot["transitions"],
        "traces_validated_against_impl": tot["validated"],
        "evaluations": tot["rts"] + tot["fresh"] + len(ladder) + len(main_cases),
        "main_module_class_cases": len(main_cases),
        "distinct_nontrivial": tot["rts"],
        "round_trips_same_process": tot["rts"],
        "fresh_interpreter_loads": tot["fresh"],
        "ladder_cases": len(ladder),
        "ladder_sizes": list(sizes),
        "rule": "every state of each pool (BFS to fixpoint) x roots {universe, vertex, link} x protocols "
                f"{list(PROTOCOLS[tier])} x loaders {{pickle, dill}} (+ dump(file)): identity-aware canonical form of "
                "the reachable object graph equal for original and copy, no shared object, equal query battery; every "
                "state's bytes (protocol 0 and 4) loaded in fresh interpreters with caching off and on; a finite "
                "ladder of large graphs under a lowered recursion limit; a round trip is one (state, root, protocol, "
                "loader) tuple, distinct by construction",
        "exhaustive": exhaustive, "fixpoint": exhaustive, "pools": pools_ev,
        "distinct_observed_outcomes": tot["outcomes"], "samples": samples,
    }
    rep.assumptions = ["'regardless of size or depth' is covered by a finite ladder (up to 2000 / 5000 vertices), "
                       "not for all sizes",
                       "bounded pools for the exhaustive part",
                       "classes pickled by value: a finite list of class bodies defined in __main__ of a fresh "
                       "interpreter (dump) and loaded in another that does not define them, 30 s limit each"]
    return rep.finish(confirm=replay)
