"""
C16 -- plain-text rendering: one well-formed line per vertex listing its neighbours.

Engine G: graph states (3 member candidates + links of the two edge families,
self-loops, parallel edges); per state every membership subset (so neighbours
outside the universe occur), the reversed member order and the empty universe
x rfunc in {None, <i>} x sort in {None, i, -i, permutation table}.  Oracle:
line-by-line expected text computed from the real neighbors().
"""

import itertools

from edgegraph.structure import Vertex, Universe
from edgegraph.traversal import helpers
from edgegraph.output import plaintext

from .. import engine_g
from ..report import Report

PROP = "C16"

SPACES = {
    "quick": [dict(nv=3, maxl=2, classes=("D", "U")),
              dict(nv=3, maxl=3, minl=3, classes=("D", "U")),
              dict(nv=3, maxl=2, classes=("D", "U"), twin=True)],      # the last vertex carries the first one's uid
    "thorough": [dict(nv=3, maxl=3, classes=("D", "U", "Ds", "Us")),
                 dict(nv=4, maxl=3, minl=3, classes=("D", "U")),
                 dict(nv=3, maxl=2, classes=("D", "U"), mutations=True),
                 dict(nv=3, maxl=4, minl=4, classes=("D", "U")),
                 dict(nv=2, maxl=6, minl=4, classes=("D", "U")),
                 dict(nv=3, maxl=3, classes=("D", "U"), twin=True)],
}


# deterministic shapes at a ladder of sizes; and a few very large stars / fans (line length thresholds)
SPACES["quick"] += engine_g.family_specs(list(range(4, 13)) + [16, 17])
SPACES["quick"] += engine_g.family_specs([257, 258, 259, 260], shapes=("star-out", "fan-parallel"))
SPACES["thorough"] += engine_g.family_specs(list(range(4, 13)) + [16, 17, 32, 33, 64, 65])
SPACES["thorough"] += engine_g.family_specs([129, 257, 258, 259, 260, 1025], shapes=("star-out", "fan-parallel", "chain-D"))


def rf_angle(v):
    return f"<{v.i}>"


class _Perm(dict):
    def __missing__(self, i):          # an injective key for any label: even labels first, descending
        return (i % 2) * 10 ** 6 - i


PERM = _Perm({0: 2, 1: 0, 2: 3, 3: 1})
RFUNCS = {"none": None, "angle": rf_angle}
SORTS = {
    "none": None,
    "i": lambda v: v.i,
    "neg": lambda v: -v.i,
    "perm": lambda v: PERM[v.i],
}


def member_lists(nv):
    if nv > 4:
        # larger graphs: all, all minus the middle vertex, the even ones, reversed
        mid = nv // 2
        return [tuple(range(nv)), tuple(i for i in range(nv) if i != mid), tuple(range(0, nv, 2)),
                tuple(reversed(range(nv)))]
    out = [()]
    for n in range(1, nv + 1):
        out += list(itertools.combinations(range(nv), n))
    out.append(tuple(reversed(range(nv))))
    if nv >= 3:
        out.append((1, 0, 2))
    return out


def expected_lines(w, members, rfunc, sort):
    r = rfunc or repr
    verts = [w.v[i] for i in members]
    if sort:
        verts = sorted(verts, key=sort)
    lines = []
    for v in verts:
        nbs = helpers.neighbors(v)
        if sort:
            nbs = sorted(nbs, key=sort)
        lines.append((r(v), [r(x) for x in nbs]))
    return lines


def _fail():
    raise RuntimeError("rfunc fails")


def judge(w, members, rn, sn):
    uni = Universe(vertices=[w.v[i] for i in members])
    rfunc, sort = RFUNCS[rn], SORTS[sn]
    if members:
        # renderings that are rejected come first: an rfunc that fails at the last member (after labels and
        # keys of the others have been computed), and sort keys that cannot be compared -- a failed
        # rendering must not spoil the valid one that follows
        last = w.v[members[-1]]
        for kw in (dict(rfunc=lambda v, _l=last: _fail() if v is _l else "stale-" + str(v.i)),
                   dict(rfunc=lambda v: "old-" + str(v.i), sort=lambda v: (v.i if v.i % 2 else str(v.i)))):
            try:
                plaintext.basic_render(uni, **kw)
            except Exception:  # noqa: BLE001
                pass
    try:
        out = plaintext.basic_render(uni, rfunc=rfunc, sort=sort)
    except Exception as e:  # noqa: BLE001
        return f"raised-{type(e).__name__}", None
    if not members:
        return (None if out is None else "empty-universe-not-None"), out
    if not isinstance(out, str):
        return f"returned-{type(out).__name__}", out
    exp = expected_lines(w, members, rfunc, sort)
    got = out.split("\n")
    if len(got) != len(exp):
        return "number-of-lines", out
    for line, (head, nbs) in zip(got, exp):
        if nbs:
            want = head + " -> " + ", ".join(nbs)
            if line != want:
                if line.startswith(head + " -> "):
                    gl = line[len(head) + 4:].split(", ")
                    if sorted(gl) == sorted(nbs):
                        return "neighbour-order", out
                    return "neighbour-list", out
                if any(line.startswith(h + " -> ") for h, _ in exp):
                    return "line-order", out
                return "line-format", out
        else:
            if line.rstrip() != head + " ->":
                if any(line.rstrip() == h + " ->" or line.startswith(h + " -> ") for h, _ in exp):
                    return "line-order", out
                return "line-without-neighbours-malformed", out
    return None, out


def per_state(spec, seq, w):
    Vertex.NEIGHBOR_CACHING = False
    evals = nontriv = 0
    viols = []
    sq = [list(o) for o in seq]
    for members in member_lists(spec["nv"]):
        for rn in RFUNCS:
            for sn in SORTS:
                evals += 1
                nontriv += bool(members) and bool(w.l)
                bad, out = judge(w, members, rn, sn)
                if bad:
                    mk = "empty" if not members else ("all" if len(members) == spec["nv"] else "partial")
                    fp = f"basic_render|members={mk}|rfunc={rn}|sort={sn}|{bad}"
                    viols.append((fp, {"seq": sq, "space": _plain(spec), "case": [list(members), rn, sn]}))
    return evals, nontriv, viols, None


def _plain(spec):
    return {k: (list(v) if isinstance(v, tuple) else v) for k, v in spec.items() if k != "explicit"}


def replay_single(rec, verbose=False):
    w, ok = engine_g.build(rec["space"], [tuple(o) for o in rec["seq"]])
    Vertex.NEIGHBOR_CACHING = False
    members, rn, sn = rec["case"]
    bad, out = judge(w, tuple(members), rn, sn)
    if verbose:
        from ..structure import observe
        print("  graph ops:", rec["seq"])
        print("  links (ends):", observe(w)["lv"], observe(w)["cl"], " members:", members, " rfunc:", rn, " sort:", sn)
        print("  output:", repr(out))
        print("  expected:", expected_lines(w, tuple(members), RFUNCS[rn], SORTS[sn]) if members else None)
        print("  verdict:", bad)
    return bad is not None


def replay(rec, verbose=False):
    """
    Re-executes the WHOLE evaluation of the recorded graph state (every membership list / option
    combination, in the order the explorer used) on freshly built objects and reports whether the
    recorded case fails in it: a renderer that keeps state between calls (a module-level memo, a
    flag left over from the previous call) only misbehaves in a sequence of calls.
    """
    from ..structure import new_item
    new_item()
    spec = dict(rec["space"])
    seq = [tuple(o) for o in rec["seq"]]
    w, ok = engine_g.build(spec, seq)
    ev, nt, viols, _ = per_state(spec, seq, w)
    hit = [fp for fp, r in viols if r["case"] == rec["case"]]
    if verbose:
        print("  whole-state replay: failing cases in this state:", len(viols), " recorded case fails:", bool(hit))
        new_item()
        replay_single(rec, verbose=True)
    return bool(hit)


def run(tier, seed, log):
    rep = Report(PROP, tier, seed)
    results = []
    for spec in SPACES[tier]:
        res = engine_g.explore(spec, per_state, seed=seed, log=log)
        for fp, (n, rec) in res.viols.items():
            rep.add(fp, rec, n)
        results.append((res, _plain(spec)))
    rep.coverage = engine_g.merge_coverage(
        results,
        "every ordered multigraph of each space x every membership list (all subsets in index order, two "
        "permuted full lists, the empty universe) x rfunc {None, <i>} x sort {None, i, -i, permutation}; "
        "every rendering is preceded by two that fail part-way (rfunc at the last member, incomparable sort "
        "keys); expected text computed line by line from the real neighbors(); non-trivial = non-empty universe "
        "and at least one link")
    rep.assumptions = ["edge classes of the two edge families (neighbors() raises on others by default)",
                       "sort keys are injective (no dependence on sort stability)",
                       "a line without neighbours may carry trailing blanks after the arrow"]
    return rep.finish(confirm=replay)
