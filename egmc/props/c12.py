"""
C12 -- containers handed out or taken in are snapshots; mutating them changes nothing.

Engine H explores the states of a small structure + caching alphabet (links,
membership, flag on/off, cold and warm memos).  In every reached state every
*leak attempt* is evaluated as a differential between two deep copies of that
state:
    copy 1:  obtain the container through accessor / query A, apply mutation mu to it
    copy 2:  obtain the container through A, do nothing
and likewise for constructor / builder inputs (build from container C, then
mutate C  vs  build only).  The two copies must afterwards have the same complete
canonical state (all vars() of all objects, memos included) and answer the whole
query battery identically (with the flag as it is, and forced on).
"""

import copy

from edgegraph.structure import Vertex, Universe, DirectedEdge, UnDirectedEdge
from edgegraph.structure.universe import UniverseLaws
from edgegraph.traversal import helpers, breadthfirst, depthfirst
from edgegraph.builder import adjlist, adjmatrix

from .. import engine_h, battery, canon as _canon
from ..fixtures_mod import NB_FILTERS, DIRS, UNKS, HyperLink
from ..report import Report
from ..structure import Alphabet, SWorld, apply_op, canon_world, observe, inv_links, memo_is_warm

PROP = "C12"

POOLS = {
    # quick: the universe has fixed members (both vertices); thorough explores membership too
    "quick": [dict(alpha=dict(nv=2, maxl=1, maxar=2, classes=("D", "U"), raw=False, bad=False, none_ends=False,
                              explicit_ops=True, nu=1, membership=False))],
    "thorough": [dict(alpha=dict(nv=2, maxl=2, maxar=2, classes=("D", "U"), raw=False, bad=False, none_ends=False,
                                 explicit_ops=True, nu=1, membership=True)),
                 dict(alpha=dict(nv=3, maxl=1, maxar=2, classes=("D", "O"), raw=True, bad=False, none_ends=True,
                                 explicit_ops=False, nu=1, membership=True))],
}
# the same (unknown handling, filter) under all three directions, plus a filtered and a NON key
KEYS = [("FWD", "NBR", "none"), ("ANY", "NBR", "none"), ("BWD", "NBR", "none"),
        ("ANY", "NBR", "selv"), ("BWD", "NON", "none")]
# single-key queries (partial memos: one direction cached, another about to be asked)
SINGLE = [("FWD", "NBR", "none"), ("ANY", "NBR", "none")]


# ---- mutations by container type ---------------------------------------------------
def list_mutations(extra):
    return {
        "append": lambda c: c.append(extra),
        "insert0": lambda c: c.insert(0, extra),
        "pop": lambda c: c.pop(),
        "remove-first": lambda c: c.remove(c[0]),
        "clear": lambda c: c.clear(),
        "reverse": lambda c: c.reverse(),
        "sort-by-id-desc": lambda c: c.sort(key=lambda o: -id(o)),
        "setitem0": lambda c: c.__setitem__(0, extra),
        "delitem0": lambda c: c.__delitem__(0),
        "iadd": lambda c: c.__iadd__([extra, extra]),
    }


def set_mutations(extra):
    return {
        "add": lambda c: c.add(extra),
        "discard-one": lambda c: c.discard(next(iter(c))),
        "clear": lambda c: c.clear(),
        "pop": lambda c: c.pop(),
    }


def tuple_mutations(extra):
    return {
        "setitem0": lambda c: c.__setitem__(0, extra),
        "iadd": lambda c: c.__iadd__((extra,)),
    }


def mapping_mutations(extra):
    return {
        "setitem": lambda c: c.__setitem__(Universe, {Vertex: UnDirectedEdge}),
        "delitem": lambda c: c.__delitem__(next(iter(c))),
        "inner-setitem": lambda c: c[next(iter(c))].__setitem__(Universe, UnDirectedEdge),
        "inner-clear": lambda c: c[next(iter(c))].clear(),
        "clear": lambda c: c.clear(),
    }


def mutations_for(container, extra):
    if isinstance(container, list):
        return list_mutations(extra)
    if isinstance(container, (set,)):
        return set_mutations(extra)
    if isinstance(container, tuple):
        return tuple_mutations(extra)
    if hasattr(container, "items"):
        return mapping_mutations(extra)
    return {}


# ---- accessors: name -> fn(world) -> container -------------------------------------
def accessors(w):
    out = {}
    for i in range(len(w.v)):
        out[f"v{i}.links"] = lambda w, i=i: w.v[i].links
        out[f"v{i}.universes"] = lambda w, i=i: w.v[i].universes
        for (d, u, f) in KEYS:
            out[f"neighbors(v{i},{d},{u},{f})"] = (
                lambda w, i=i, d=d, u=u, f=f: helpers.neighbors(w.v[i], DIRS[d], UNKS[u], NB_FILTERS[f]))
        out[f"bft(None,v{i})"] = lambda w, i=i: breadthfirst.bft(
            None, w.v[i], unknown_handling=helpers.LNK_UNKNOWN_NEIGHBOR)
        out[f"dft_recursive(U,v{i})"] = lambda w, i=i: depthfirst.dft_recursive(
            w.u[0], w.v[i], unknown_handling=helpers.LNK_UNKNOWN_NEIGHBOR)
        out[f"dft_iterative(None,v{i})"] = lambda w, i=i: depthfirst.dft_iterative(
            None, w.v[i], unknown_handling=helpers.LNK_UNKNOWN_NEIGHBOR)
    for k in range(len(w.l)):
        out[f"l{k}.vertices"] = lambda w, k=k: w.l[k].vertices
    out["U.vertices"] = lambda w: w.u[0].vertices
    out["U.universes"] = lambda w: w.u[0].universes
    out["U.links"] = lambda w: w.u[0].links
    out["laws.edge_whitelist"] = lambda w: w.u[0].laws.edge_whitelist
    for a in range(len(w.v)):
        for b in range(len(w.v)):
            out[f"find_links(v{a},v{b})"] = lambda w, a=a, b=b: helpers.find_links(
                w.v[a], w.v[b], False, helpers.LNK_UNKNOWN_NEIGHBOR)
    return out


# ---- constructor / builder inputs: name -> fn(world) -> (container(s) to mutate, new objects) ----
def builders(w):
    out = {}

    def vertex_links(w):
        c = list(w.l)
        return [c], [Vertex(links=c)]

    def vertex_universes(w):
        c = [w.u[0]]
        return [c], [Vertex(universes=c)]

    def vertex_attributes(w):
        c = {"p": 1, "q": 2}
        return [c], [Vertex(attributes=c)]

    def universe_vertices(w):
        c = list(w.v)
        return [c], [Universe(vertices=c)]

    def laws_whitelist(w):
        inner = {Vertex: DirectedEdge}
        c = {Vertex: inner}
        return [c, inner], [UniverseLaws(edge_whitelist=c)]

    def laws_whitelist_proxy_rows(w):
        # rows handed over as read-only views of dicts the caller still owns
        import types
        inner = {Vertex: DirectedEdge}
        c = {Vertex: types.MappingProxyType(inner)}
        return [c, inner], [UniverseLaws(edge_whitelist=c)]

    def laws_whitelist_proxy_outer(w):
        import types
        inner = {Vertex: DirectedEdge}
        outer = {Vertex: inner}
        return [outer, inner], [UniverseLaws(edge_whitelist=types.MappingProxyType(outer))]

    def vertex_links_tuple_then_list(w):
        # the same vertices given once as a tuple-backed list view: a list that is also kept by the caller
        c = list(w.l)
        v = Vertex(links=c, universes=[w.u[0]])
        return [c], [v]

    def universe_vertices_single(w):
        c = [w.v[0]]
        return [c], [Universe(vertices=c)]

    def hyper_vertices(w):
        c = list(w.v)
        return [c], [HyperLink(vertices=c)]

    def edge_attributes(w):
        c = {"p": 1}
        return [c], [DirectedEdge(w.v[0], w.v[-1], attributes=c)]

    def adj_dict(w):
        row0, row1 = [w.v[-1]], [w.v[0], w.v[0]]
        d = {w.v[0]: row0, w.v[-1]: row1}
        return [d, row0, row1], [adjlist.load_adj_dict(d)]

    def adj_matrix(w):
        rows = [[0, 1], [1, 1]]
        side = [w.v[0], w.v[-1]]
        return [rows, rows[0], side], [adjmatrix.load_adj_matrix(rows, side)]

    for f in (vertex_links, vertex_universes, vertex_attributes, universe_vertices, laws_whitelist,
              laws_whitelist_proxy_rows, laws_whitelist_proxy_outer, vertex_links_tuple_then_list,
              universe_vertices_single, hyper_vertices, edge_attributes, adj_dict, adj_matrix):
        out[f.__name__] = f
    return out


def dict_mutations(extra):
    return {
        "setitem-new-key": lambda c: c.__setitem__("zz" if all(isinstance(k, str) for k in c) else extra, 5),
        "overwrite-first": lambda c: c.__setitem__(next(iter(c)), 99),
        "del-first": lambda c: c.__delitem__(next(iter(c))),
        "clear": lambda c: c.clear(),
    }


def input_mutations(container, extra):
    if isinstance(container, dict):
        return dict_mutations(extra)
    return list_mutations(extra)


def full_state(w, extra_objs=()):
    return (canon_world(w), _canon.canon_graph(list(extra_objs) + w.roots(), uid="drop"))


def answers(w):
    out = {}
    for flag in (w.flag, True):
        Vertex.NEIGHBOR_CACHING = flag
        out[flag] = battery.full_answers(w, battery.KEYS_QUICK, (None, w.u[0]))
    Vertex.NEIGHBOR_CACHING = w.flag
    return out


def _try(fn, *a):
    try:
        fn(*a)
        return "applied"
    except Exception as e:  # noqa: BLE001 - an immutable container refusing the mutation is fine
        return f"refused:{type(e).__name__}"


def leak_differential(w, kind, name, mname, position=0, fresh=None):
    """
    Returns (symptom or None, how the mutation ended).
    kind: "accessor" | "input".  `fresh()` builds an independent copy of the state by replaying its
    history (class-level library state is reset before each copy is built, and each copy is fully
    evaluated before the next one exists, so a leak through a class-level object is seen too).
    """
    from ..structure import new_item
    outcome = None
    results = []
    for mutate in (True, False):
        if fresh is not None:
            new_item()
            ww = fresh()
        else:
            ww = copy.deepcopy(w)
        extra = ()
        Vertex.NEIGHBOR_CACHING = ww.flag
        probe = Vertex(attributes={"i": 77})          # the foreign object pushed into containers
        if kind == "accessor":
            try:
                c = accessors(ww)[name](ww)
            except Exception:  # noqa: BLE001
                return None, "accessor-raised"
            if mutate:
                outcome = _try(mutations_for(c, probe)[mname], c)
            del c
        else:
            try:
                conts, new = builders(ww)[name](ww)
            except Exception:  # noqa: BLE001
                return None, "builder-raised"
            if mutate:
                outcome = _try(input_mutations(conts[position], probe)[mname], conts[position])
            extra = new
        results.append((full_state(ww, extra), answers(ww)))
    Vertex.NEIGHBOR_CACHING = w.flag
    (s1, a1), (s2, a2) = results
    if s1 != s2:
        return "state-differs-after-mutating-the-container", outcome
    if a1 != a2:
        return "later-query-answers-differ", outcome
    return None, outcome


def leak_menu(w):
    """every (kind, name, mutation, position) applicable in this world"""
    menu = []
    probe = object()
    wc = copy.deepcopy(w)
    Vertex.NEIGHBOR_CACHING = wc.flag
    for name, fn in accessors(wc).items():
        try:
            c = fn(wc)
        except Exception:  # noqa: BLE001
            continue
        for mname in mutations_for(c, probe):
            menu.append(("accessor", name, mname, 0))
    wc = copy.deepcopy(w)
    for name, fn in builders(wc).items():
        try:
            conts, _ = fn(copy.deepcopy(w))
        except Exception:  # noqa: BLE001
            continue
        for pos, c in enumerate(conts):
            for mname in input_mutations(c, probe):
                menu.append(("input", name, mname, pos))
    Vertex.NEIGHBOR_CACHING = w.flag
    return menu


def generic_name(name):
    import re
    return re.sub(r"\d+", "#", name)


class Sys:
    heavy_states = True

    def __init__(self, spec):
        self.spec = spec
        self.alpha = Alphabet(**spec["alpha"])
        self.leaks = 0

    def initial(self):
        w = SWorld(self.alpha.nv, 0, twin=getattr(self.alpha, "twin", False))
        laws = UniverseLaws(edge_whitelist={Vertex: {Vertex: DirectedEdge}})
        w.u = [Universe(laws=laws, attributes={"i": 100})]
        if not self.alpha.membership:
            for v in w.v:
                w.u[0].add_vertex(v)
        return w

    def ops(self, w):
        out = list(self.alpha.ops(w))
        for i in range(len(w.v)):
            out.append(("warm", i))
        for k in SINGLE:
            out.append(("query", 0) + k)
        out.append(("flag", not w.flag))
        out.append(("rejected_searches",))
        return out

    def apply(self, w, op):
        Vertex.NEIGHBOR_CACHING = w.flag
        if op[0] == "rejected_searches":
            # read-only calls that are rejected: every search from a vertex outside the universe and on an
            # empty universe (documented ValueError / None).  Whatever they leave behind is state.
            from edgegraph.traversal import breadthfirst, depthfirst
            for fn in (breadthfirst.bfs, depthfirst.dfs_recursive, depthfirst.dfs_iterative):
                for uni, start in ((w.u[0], Vertex(attributes={"i": 77})), (Universe(), w.v[0])):
                    try:
                        fn(uni, start, "i", 0)
                    except Exception:  # noqa: BLE001
                        pass
            return ("ret", None)
        if op[0] == "query":
            try:
                helpers.neighbors(w.v[op[1]], DIRS[op[2]], UNKS[op[3]], NB_FILTERS[op[4]])
            except Exception:  # noqa: BLE001
                pass
            return ("ret", None)
        if op[0] == "warm":
            for (d, u, f) in KEYS:
                try:
                    helpers.neighbors(w.v[op[1]], DIRS[d], UNKS[u], NB_FILTERS[f])
                except Exception:  # noqa: BLE001
                    pass
            return ("ret", None)
        if op[0] == "flag":
            w.flag = op[1]
            Vertex.NEIGHBOR_CACHING = w.flag
            return ("ret", None)
        return apply_op(w, op)

    def canon(self, w):
        return canon_world(w)

    def within_bounds(self, w):
        return self.alpha.within_bounds(w)

    def prune(self, pre, op, post, obs):
        return bool(inv_links(post))

    def check(self, pre, op, post, obs):
        return []

    def state_check(self, pre, op, post, obs):
        hist = self.current_history
        return leak_check(post, fresh=lambda: engine_h.build(self, hist))

    def init_check(self, w):
        return leak_check(w, fresh=lambda: engine_h.build(self, ()))


LEAK_COUNTS = {"n": 0, "applied": 0}


def leak_check(w, fresh=None):
    out = []
    memo = "warm" if any(memo_is_warm(v) for v in w.v) else "cold"
    for kind, name, mname, pos in leak_menu(w):
        bad, outcome = leak_differential(w, kind, name, mname, pos, fresh=fresh)
        LEAK_COUNTS["n"] += 1
        LEAK_COUNTS["applied"] += outcome == "applied"
        if bad:
            fp = f"{kind}|{generic_name(name)}{'[inner]' if pos else ''}|{mname}|caching={'on' if w.flag else 'off'}|memo={memo}|{bad}"
            out.append((fp, {"leak": [kind, name, mname, pos], "flag": w.flag, "post": observe(w)}))
    return out


def replay(rec, verbose=False):
    s = Sys(rec["pool"])
    w = s.initial()
    hist = [tuple(op) for op in rec["history"]]
    for op in hist:
        s.apply(w, op)
    kind, name, mname, pos = rec["detail"]["leak"]
    bad, outcome = leak_differential(w, kind, name, mname, pos, fresh=lambda: engine_h.build(s, hist))
    if verbose:
        print("  history:", hist, " caching:", w.flag)
        print(f"  leak attempt: {kind} {name} (container #{pos}), mutation {mname} -> {outcome}")
        print("  verdict:", bad)
    Vertex.NEIGHBOR_CACHING = False
    return bad is not None


def run(tier, seed, log):
    rep = Report(PROP, tier, seed)
    tot = dict(states=0, transitions=0, validated=0, outcomes=0)
    pools_ev, samples = [], []
    exhaustive = True
    # leak differentials are counted in the workers; recount cheaply in the parent per pool
    nleaks = 0
    for spec in POOLS[tier]:
        log(f"[{PROP}] pool {spec}")
        sysm = Sys(spec)
        res = engine_h.explore(sysm, seed=seed, log=log, collect=True)
        for fp, (n, rec) in res.viols.items():
            rec = dict(rec)
            rec["pool"] = spec
            rep.add(fp, rec, n)
        # number of leak attempts evaluated = sum over states of the menu size (recomputed, cheap)
        menu_total = 0
        for h in res.all_histories:
            menu_total += len(leak_menu(engine_h.build(sysm, h)))
        nleaks += menu_total
        tot["states"] += res.states
        tot["transitions"] += res.transitions
        tot["validated"] += res.validated
        tot["outcomes"] += len(res.outcomes)
        exhaustive = exhaustive and res.exhaustive
        pools_ev.append({"pool": spec, "states": res.states, "transitions": res.transitions,
                         "leak_attempts": menu_total, "max_depth": res.depth, "fixpoint": res.exhaustive,
                         "cap_hit": res.cap, "wall_s": round(res.wall, 1)})
        samples += [{"pool": spec["alpha"], "history": h} for h in res.sample_histories[-2:]]
    w = Sys(POOLS[tier][0]).initial()
    menu = leak_menu(w)
    samples += [{"leak_attempt": list(m)} for m in menu[:3] + menu[-3:]]
    rep.coverage = {
        "states": tot["states"], "transitions": tot["transitions"],
        "traces_validated_against_impl": tot["validated"],
        "evaluations": nleaks,
        "distinct_nontrivial": nleaks,
        "rule": "BFS to fixpoint over links / membership / flag / warm; in every reached state every accessor or "
                "query x every mutation applicable to the returned container, and every constructor / builder "
                "input x every mutation of it afterwards, as a differential between two deep copies of the state "
                "(with and without the mutation): complete canonical state and query battery must agree; a leak "
                "attempt is one (state, accessor-or-input, mutation) triple, distinct by construction",
        "exhaustive": exhaustive, "fixpoint": exhaustive, "pools": pools_ev,
        "distinct_observed_outcomes": tot["outcomes"], "samples": samples,
    }
    rep.assumptions = ["an immutable container that refuses the mutation is fine",
                       "only the exchanged collection itself is mutated, not user values stored inside it"]
    return rep.finish(confirm=replay)
