"""
C08 -- each search returns the first match of its corresponding traversal, or None.

Engine G.  Per graph state: 3 vertex classes (plain, __bool__ -> False, __len__ -> 0)
x every labelling of the vertices with attribute `k` from {absent, 1000, (1, 2)}
x every start x universe (None / subsets containing the start) x sought value
(freshly built objects equal but not identical to the stored ones, and a value no
vertex has) and an attribute name no vertex has; oracle: first match in the list
the *real* corresponding traversal returns.
"""

import itertools

from edgegraph.structure import Vertex, Universe
from edgegraph.traversal import breadthfirst, depthfirst

from .. import engine_g
from ..fixtures_mod import FalsyBoolVertex, FalsyLenVertex
from ..report import Report

PROP = "C08"

VCLASSES = {"Vertex": Vertex, "FalsyBool": FalsyBoolVertex, "FalsyLen": FalsyLenVertex}
SEARCHES = {
    "bfs": (breadthfirst.bfs, breadthfirst.bft),
    "dfs_recursive": (depthfirst.dfs_recursive, depthfirst.dft_recursive),
    "dfs_iterative": (depthfirst.dfs_iterative, depthfirst.dft_iterative),
}
# stored label values: a large int (never identical to a freshly built equal one), a tuple, the falsy
# value 0 and None (an attribute that is present with value None is not the same as an absent one)
STORED = {"A": 1000, "B": (1, 2), "Z": 0, "N": None}


def fresh(name):
    """the sought value: for A and B a freshly built object equal but not identical to the stored one"""
    if name == "A":
        return int("1000")
    if name == "B":
        return tuple([1, 2])
    if name == "Z":
        return 0
    if name == "N":
        return None
    return 7            # a value no vertex carries


SPACES = {
    "quick": [
        (dict(nv=3, maxl=2, classes=("D", "U")),
         dict(variants=("Vertex", "FalsyBool", "FalsyLen"), unis="all-subsets", labels="-AZN")),
        (dict(nv=3, maxl=3, minl=3, classes=("D", "U")),
         dict(variants=("Vertex", "FalsyBool"), unis="all-minus-one", labels="-AN")),
        # a cross edge back to a vertex still waiting on the stack, with another match in between,
        # needs 4 vertices and 4 links
        (dict(nv=4, maxl=4, minl=4, classes=("D",), self_loops=False),
         dict(variants=("Vertex",), unis="none-only", labels="-A")),
        # many links over two pairs (the explicit stack / queue grows beyond any small multiple of |V|)
        (dict(nv=3, maxl=8, minl=5, classes=("D",), pairs=[(0, 1), (0, 2)]),
         dict(variants=("Vertex",), unis="all-minus-one", labels="-A")),
        # the last vertex is a twin of the first (distinct object, same uid)
        (dict(nv=3, maxl=3, classes=("D", "U"), twin=True),
         dict(variants=("Vertex",), unis="all-minus-one", labels="-AN")),
    ],
    "thorough": [
        (dict(nv=3, maxl=10, minl=5, classes=("D",), pairs=[(0, 1), (0, 2), (1, 2)]),
         dict(variants=("Vertex",), unis="all-minus-one", labels="-A")),
        (dict(nv=3, maxl=3, classes=("D", "U", "Ds")),
         dict(variants=("Vertex", "FalsyBool", "FalsyLen"), unis="all-subsets", labels="-AZN")),
        (dict(nv=4, maxl=3, minl=3, classes=("D", "U")),
         dict(variants=("Vertex", "FalsyBool"), unis="all-minus-one", labels="-AN")),
        (dict(nv=3, maxl=2, classes=("D", "U"), mutations=True),
         dict(variants=("Vertex", "FalsyLen"), unis="all-subsets", labels="-ABZN")),
    ],
}
_FAMCFG = dict(variants=("Vertex", "FalsyBool"), unis="few", starts="few", labels="-AN", labellings="few")
SPACES["quick"] += [(sp, _FAMCFG) for sp in engine_g.family_specs(list(range(4, 13)) + [16, 17])]
SPACES["thorough"] += [(sp, _FAMCFG) for sp in engine_g.family_specs(list(range(4, 13)) + [16, 17, 32, 33])]
_cfg = None


def _plain(spec):
    return {k: (list(v) if isinstance(v, tuple) else v) for k, v in spec.items() if k not in ("vclasses", "explicit")}


class ClosedUniverse(Universe):
    closed = False

    def add_vertex(self, vert):
        if self.closed:
            raise TypeError("this universe takes no further members")
        super().add_vertex(vert)


def unis_for(w, mode):
    nv = len(w.v)
    out = [("none", None, frozenset(range(nv)))]
    if mode == "none-only":
        return out
    if mode == "few":
        mid = nv // 2
        for s in (tuple(range(nv)), tuple(i for i in range(nv) if i != mid)):
            out.append(("m" + "-".join(map(str, s)), Universe(vertices=[w.v[i] for i in s]), frozenset(s)))
        return out
    if mode == "all-subsets":
        subsets = [s for n in range(1, nv + 1) for s in itertools.combinations(range(nv), n)]
    else:
        subsets = [tuple(range(nv))] + [tuple(i for i in range(nv) if i != k) for k in range(nv)]
    for s in subsets:
        out.append(("m" + "".join(map(str, s)), Universe(vertices=[w.v[i] for i in s]), frozenset(s)))
    # universes of a subclass that rejects further members: the outsider has TRIED to join (the call raised),
    # so it names the universe although the universe does not list it -- it is still outside
    for k in range(nv):
        s = tuple(i for i in range(nv) if i != k)
        u = ClosedUniverse(vertices=[w.v[i] for i in s])
        u.closed = True
        try:
            w.v[k].add_to_universe(u)
        except TypeError:
            pass
        out.append(("c" + "".join(map(str, s)), u, frozenset(s)))
    return out


def set_labels(w, labelling):
    for v, lab in zip(w.v, labelling):
        if lab == "-":
            if "k" in vars(v):
                del v.k
        else:
            v.k = STORED[lab]


def judge(w, sname, uni, members, s, attr, sought_name, tlist):
    """tlist: index list of the real traversal (or ('exc', name)).  Returns symptom or None."""
    search = SEARCHES[sname][0]
    val = fresh(sought_name)
    try:
        r = search(uni, w.v[s], attr, val)
    except Exception as e:  # noqa: BLE001
        if isinstance(tlist, tuple):
            return None
        return f"raised-{type(e).__name__}"
    if isinstance(tlist, tuple):
        # the traversal itself raises (unknown link class, or a start outside the universe): nothing
        # is stated about the answer, except that it is never a vertex outside the universe
        if r is not None and uni is not None and w.vid(r) not in members:
            return "returned-vertex-outside-universe"
        return None
    exp = None
    for x in tlist:
        vx = w.v[x]
        if hasattr(vx, attr) and vx[attr] == val:
            exp = x
            break
    got = None if r is None else w.vid(r)
    if got == exp:
        return None
    if got is None:
        return "returned-None-although-a-listed-vertex-matches"
    if got == "?":
        return "returned-foreign-object"
    if got not in members:
        return "returned-vertex-outside-universe"
    vg = w.v[got]
    if not (hasattr(vg, attr) and vg[attr] == val):
        return "returned-non-matching-vertex"
    if exp is None:
        return "returned-match-that-traversal-does-not-list"
    return "returned-later-match-not-the-first"


def _starts(nv, uni, members, few):
    """every member, and (for a real universe) every vertex outside it as well"""
    pool = set(range(nv)) if uni is not None else set(members)
    if few:
        pool &= {0, nv // 2, nv - 1}
    return sorted(pool)


def per_state(spec, seq, w0):
    Vertex.NEIGHBOR_CACHING = False
    cfg = _cfg
    nv = spec["nv"]
    evals = nontriv = 0
    viols = []
    sq = [list(o) for o in seq]
    if cfg.get("labellings") == "few":
        # larger graphs: a handful of labellings instead of all |labels|^n
        mid = nv // 2
        labellings = [tuple("A" * nv), tuple("A" if i % 2 else "-" for i in range(nv)),
                      tuple("A" if i == nv - 1 else "-" for i in range(nv)),
                      tuple("A" if i in (mid, nv - 1) else "-" for i in range(nv)),
                      tuple("N" if i == mid else ("A" if i == nv - 1 else "-") for i in range(nv))]
    else:
        labellings = list(itertools.product(cfg["labels"], repeat=nv))
    soughts = [("k", x) for x in cfg["labels"] if x != "-"] + [("k", "absent"), ("nosuch", "A"), ("nosuch", "N")]
    for vname in cfg["variants"]:
        spec2 = dict(spec, vclasses=[VCLASSES[vname]] * nv)
        w, _ = engine_g.build(spec2, seq, validate=False)
        unis = unis_for(w, cfg["unis"])
        # traversal lists do not depend on the labelling
        trav = {}
        few = cfg.get("starts") == "few"
        for uname, uni, members in unis:
            for s in _starts(nv, uni, members, few):
                for sname, (_, tfn) in SEARCHES.items():
                    try:
                        trav[(uname, s, sname)] = [w.vid(x) for x in tfn(uni, w.v[s])]
                    except Exception as e:  # noqa: BLE001
                        trav[(uname, s, sname)] = ("exc", type(e).__name__)
        for lab in labellings:
            set_labels(w, lab)
            present = set(lab) - {"-"}
            for uname, uni, members in unis:
                ukind = "none" if uni is None else ("all" if len(members) == nv else ("partial-closed" if isinstance(uni, ClosedUniverse) else "partial"))
                for s in _starts(nv, uni, members, few):
                    for sname in SEARCHES:
                        tl = trav[(uname, s, sname)]
                        for attr, sought in soughts:
                            evals += 1
                            nontriv += (sought in present and attr == "k")
                            bad = judge(w, sname, uni, members, s, attr, sought, tl)
                            if bad:
                                fp = f"{sname}|vertexclass={vname}|universe={ukind}|{'attr-absent' if attr != 'k' else 'value-' + ('present' if sought in present else 'absent')}|{bad}"
                                viols.append((fp, {"seq": sq, "space": _plain(spec), "cfg": cfg,
                                                   "case": [vname, "".join(lab), uname, s, sname, attr, sought]}))
    return evals, nontriv, viols, None


def replay(rec, verbose=False):
    spec = dict(rec["space"])
    seq = [tuple(o) for o in rec["seq"]]
    vname, lab, uname, s, sname, attr, sought = rec["case"]
    spec["vclasses"] = [VCLASSES[vname]] * spec["nv"]
    w, ok = engine_g.build(spec, seq, validate=False)
    Vertex.NEIGHBOR_CACHING = False
    unis = {u[0]: u for u in unis_for(w, rec["cfg"]["unis"])}
    _, uni, members = unis[uname]
    set_labels(w, lab)
    try:
        tl = [w.vid(x) for x in SEARCHES[sname][1](uni, w.v[s])]
    except Exception as e:  # noqa: BLE001
        tl = ("exc", type(e).__name__)
    bad = judge(w, sname, uni, members, s, attr, sought, tl)
    if verbose:
        from ..structure import observe
        print("  graph ops:", seq, " vertex class:", vname)
        print("  links (ends):", observe(w)["lv"], " labels k:", lab, " universe:", uname, " start: v%d" % s)
        print(f"  traversal {SEARCHES[sname][1].__name__} lists:", tl)
        print(f"  {sname}(…, attrib={attr!r}, val=fresh {sought}) verdict:", bad)
    return bad is not None


def run(tier, seed, log):
    global _cfg
    rep = Report(PROP, tier, seed)
    results = []
    for spec, cfg in SPACES[tier]:
        _cfg = dict(cfg)
        res = engine_g.explore(spec, per_state, seed=seed, log=log)
        for fp, (n, rec) in res.viols.items():
            rep.add(fp, rec, n)
        sp = _plain(spec)
        sp["configuration"] = {k: list(v) if isinstance(v, tuple) else v for k, v in cfg.items()}
        results.append((res, sp))
    rep.coverage = engine_g.merge_coverage(
        results,
        "every ordered multigraph of each space x vertex class variants x all labellings of attribute k over the "
        "space's label domain (absent, 1000, (1,2), 0, None) x every start x universes x every stored value as "
        "sought value (1000 and (1,2) as freshly built equal objects; 0; None), a value no vertex carries, and an "
        "attribute name no vertex has (sought 1000 and None) x 3 searches; starts outside the universe and "
        "universes of a subclass that rejected the outsider's attempt to join included (the answer is never a "
        "non-member); expected = first match in the list "
        "returned by the real corresponding traversal; non-trivial = the sought value is carried by some vertex")
    rep.assumptions = ["caching off; edge classes of the two edge families only (default unknown handling "
                       "raises otherwise and the statement is silent there)",
                       "the traversal lists are the real bft/dft_* results (C06/C07 cover them)"]
    return rep.finish(confirm=replay)
