"""
C17 -- semi-singletons: per class, instances correspond one-to-one to argument keys.

Engine H (rebuild mode: worlds hold classes and metaclass state, which cannot
be deep-copied, so every transition replays the whole history on fresh classes).
The world carries a reference model (per class: key -> the very instance); after
every op the complete table check_semi_singleton_entry_exists(class, key) and
get_all_semi_singleton_instances(class) is compared with the model, for every
class, so "operations on one class never change what another class returns" is
part of every step.
"""

import collections

from edgegraph.structure import singleton as S

from .. import engine_h
from ..report import Report

PROP = "C17"

class _Args(dict):
    """fixed argument keys plus the family n0, n1, ... = ((100,), {}), ((101,), {}), ... for pumped pools"""

    def __missing__(self, name):
        if name.startswith("n") and name[1:].isdigit():
            return ((100 + int(name[1:]),), {})
        raise KeyError(name)


ARGS = _Args({
    "p1": ((1,), {}),
    "p2": ((2,), {}),
    "m1": ((-1,), {}),
    "m2": ((-2,), {}),
    "kxy": ((), {"x": 1, "y": 2}),
    "kyx": ((), {"y": 2, "x": 1}),
    "p1k": ((1,), {"x": 1}),
    # constructions that fail: __init__ raises after it has set its attributes -- an ordinary exception,
    # and one that is not an Exception (KeyboardInterrupt-like)
    "xE": (("boomE",), {}),
    "xB": (("boomB",), {}),
})


class InitFailed(Exception):
    pass


class InitAborted(BaseException):
    pass


# class kinds: own = own default metaclass; shared0/shared1 = two classes on one metaclass object;
# sub0 = subclass of class index 0; custom = own metaclass with hashfunc args[0] % 2
POOLS = {
    "quick": [
        dict(classes=["own", "sub0"], keys=["p1", "m1", "m2", "kxy"]),
        dict(classes=["shared0", "shared1", "custom"], keys=["p1", "m1", "m2"]),
        dict(classes=["own"], keys=["p1", "m1", "m2", "kxy", "kyx", "p1k"]),
        dict(classes=["falsy", "own"], keys=["p1", "m1", "kxy"]),
        dict(classes=["own", "sub0"], keys=["p1", "xE", "xB"]),
    ],
    "thorough": [
        dict(classes=["falsy", "sub0"], keys=["p1", "m1", "m2", "kxy"]),
        dict(classes=["own", "sub0"], keys=["p1", "m1", "m2", "kxy", "kyx"]),
        dict(classes=["shared0", "shared1", "custom"], keys=["p1", "p2", "m1", "m2"]),
        dict(classes=["own", "own", "sub0"], keys=["p1", "m1", "m2"]),
        dict(classes=["own", "custom", "sub1"], keys=["p1", "p2", "m2"]),
        dict(classes=["own"], keys=["p1", "m1", "m2", "kxy", "kyx", "p1k"]),
        dict(classes=["own", "sub0", "falsy"], keys=["p1", "m1", "xE", "xB"]),
    ],
}


# pumped pools: one class with n live keys n0..n(n-1) (one instance each), then every history of <= depth
# ops on the focus keys {first, last, two new ones} -- behaviour depending on the number of live instances
PUMPED = {
    "quick": dict(ns=[0, 1, 2, 3, 4, 7, 8, 9, 12], depth=4),
    "thorough": dict(ns=list(range(0, 13)) + [16, 17, 32, 33], depth=5),
}


def model_key(kind, a):
    args, kwargs = a
    if kind == "custom":
        return ("custom", args[0] % 2)
    return (args, tuple(sorted(kwargs.items())))


def _custom_hash(args, kwargs):
    return args[0] % 2


class World:
    def __init__(self, spec):
        self.spec = spec
        self.inits = collections.Counter()
        inits = self.inits

        def mk(name, meta, bases=(), falsy=False):
            def __init__(self, *a, **k):
                inits[id(self)] += 1
                inits["total"] += 1
                self.a = a
                self.k = dict(k)
                if a and a[0] == "boomE":
                    raise InitFailed()
                if a and a[0] == "boomB":
                    raise InitAborted()
            ns = {"__init__": __init__}
            if falsy:
                # an (initially empty) container-like class: its instances are falsy
                ns["__len__"] = lambda self: 0
            return meta(name, bases, ns)

        shared = None
        self.cls = []
        self.kind = []
        for idx, kind in enumerate(spec["classes"]):
            name = f"K{idx}_{kind}"
            if kind == "own":
                c = mk(name, S.semi_singleton_metaclass())
            elif kind == "falsy":
                c = mk(name, S.semi_singleton_metaclass(), falsy=True)
            elif kind.startswith("shared"):
                if shared is None:
                    shared = S.semi_singleton_metaclass()
                c = mk(name, shared)
            elif kind.startswith("sub"):
                parent = self.cls[int(kind[3:])]
                c = type(parent)(name, (parent,), {})
            elif kind == "custom":
                c = mk(name, S.semi_singleton_metaclass(hashfunc=_custom_hash))
            self.cls.append(c)
            self.kind.append("custom" if kind == "custom" or (kind.startswith("sub") and self.kind[int(kind[3:])] == "custom") else "default")
        self.model = [dict() for _ in self.cls]      # model key -> real instance
        self.keep = []                                # keep every instance alive (stable id())
        for k in range(spec.get("pumped", 0)):
            a = ARGS[f"n{k}"]
            o = self.cls[0](*a[0], **a[1])
            self.keep.append(o)
            self.model[0][self.mkey(0, f"n{k}")] = o

    def mkey(self, c, kname):
        return model_key(self.kind[c], ARGS[kname])

    def dead(self, c):
        """the first instance of class c that was created earlier and is no longer mapped by any key"""
        live = {id(x) for x in self.model[c].values()}
        for o in self.keep:
            if type(o) is self.cls[c] and id(o) not in live:
                return o
        return None

    def focus_instances(self, c):
        """distinct live instances reachable through the pool's (focus) keys, in key order"""
        out = []
        for kname in self.spec["keys"]:
            o = self.model[c].get(self.mkey(c, kname))
            if o is not None and not any(o is x for x in out):
                out.append(o)
        return out

    def all_keys(self):
        return [f"n{k}" for k in range(self.spec.get("pumped", 0))] + list(self.spec["keys"])

    def instances(self, c):
        """distinct live instances of class c in canonical order (by smallest key name reaching them)"""
        out = []
        for kname in self.all_keys():
            o = self.model[c].get(self.mkey(c, kname))
            if o is not None and not any(o is x for x in out):
                out.append(o)
        return out


def _opaque(x):
    """an object of a library-private helper class (not a function, class, module or builtin value)"""
    import types
    if isinstance(x, (type, types.FunctionType, types.BuiltinFunctionType, types.MethodType, types.ModuleType)):
        return False
    return hasattr(x, "__dict__") or hasattr(type(x), "__slots__")


def _fields(x):
    out = {}
    for klass in type(x).__mro__:
        for name in getattr(klass, "__slots__", ()) or ():
            if isinstance(name, str) and hasattr(x, name):
                out[name] = getattr(x, name)
    out.update(getattr(x, "__dict__", {}))
    return sorted(out.items())


def real_state(w):
    """
    Canonical form of the real metaclass / class state: EVERY non-dunder, non-callable attribute of
    every metaclass and class of the pool (not only the known instance map), so that state a
    refactoring adds (a last-lookup shortcut, a counter, a second table) separates states too.
    Instances are named by first visit in a deterministic scan order.
    """
    import types
    labels = {}
    idmap = {id(o): o for o in w.keep}
    is_inst = lambda x: any(isinstance(x, c) for c in w.cls)      # noqa: E731

    def holders():
        metas = []
        for c in w.cls:
            if not any(type(c) is m for m in metas):
                metas.append(type(c))
        return metas + w.cls

    def state_attrs():
        for holder in holders():
            for name in sorted(vars(holder)):
                if name.startswith("__") and name.endswith("__"):
                    continue
                val = vars(holder)[name]
                if isinstance(val, (types.FunctionType, types.MethodType, classmethod, staticmethod, property)):
                    continue
                if callable(val) and not isinstance(val, type):
                    continue
                yield name, val

    # ---- pass 1: a label-free signature per instance = the (attribute, key path) places that hold it,
    # where keys that are ids of instances are left out.  Instances are numbered by signature (ties: by
    # creation order), so labels do not depend on dict insertion order.
    sig = {}

    def plain(x):
        if isinstance(x, int) and not isinstance(x, bool) and x in idmap:
            return None                     # an id(): not label-free
        if isinstance(x, (int, float, str, bytes, bool, type(None))):
            return repr(x)
        if isinstance(x, type):
            return "cls:" + x.__name__
        if isinstance(x, (tuple, list)):
            parts = [plain(e) for e in x]
            return None if any(p is None for p in parts) else "(" + ",".join(parts) + ")"
        return None

    def scan(x, path):
        if is_inst(x):
            sig.setdefault(id(x), []).append(path)
        elif isinstance(x, dict):
            for k, v in x.items():
                pk = plain(k)
                scan(v, path + (pk if pk is not None else "<id>",))
                if is_inst(k):
                    sig.setdefault(id(k), []).append(path + ("<key>",))
        elif isinstance(x, (list, tuple, set, frozenset)):
            for e in x:
                scan(e, path + ("[]",))
        elif _opaque(x) and id(x) not in seen_scan:
            # a helper object of the library (a registry class, ...): its attributes are state too
            seen_scan.add(id(x))
            for k, v in _fields(x):
                scan(v, path + ("." + k,))

    seen_scan = set()
    for name, val in state_attrs():
        scan(val, (name,))
    order = {id(o): n for n, o in enumerate(w.keep)}
    for n, oid in enumerate(sorted(sig, key=lambda i: (sorted(sig[i]), order.get(i, 10 ** 9)))):
        labels[oid] = (n, type(idmap[oid]).__name__ if oid in idmap else "?")

    def lab(o):
        if id(o) not in labels:
            labels[id(o)] = (len(labels), type(o).__name__)
        return labels[id(o)]

    def cv(x):
        if isinstance(x, int) and not isinstance(x, bool) and x in idmap:
            return ("id-of",) + lab(idmap[x])       # an id() used as a key / value: named like the object
        if isinstance(x, (int, float, str, bytes, bool, type(None))):
            return (type(x).__name__, x)
        if isinstance(x, type):
            return ("cls", x.__name__)
        if isinstance(x, dict):
            items = sorted(((repr(cv(k)), cv(v)) for k, v in x.items()), key=lambda kv: kv[0])
            return ("dict",) + tuple(items)
        if isinstance(x, (list, tuple)):
            return (type(x).__name__,) + tuple(cv(e) for e in x)
        if isinstance(x, (set, frozenset)):
            return ("set",) + tuple(sorted(repr(cv(e)) for e in x))
        if is_inst(x):
            return ("inst",) + lab(x)
        if _opaque(x):
            if id(x) in stack:
                return ("cycle", type(x).__name__)
            stack.append(id(x))
            try:
                return ("obj", type(x).__name__) + tuple((k, cv(v)) for k, v in _fields(x))
            finally:
                stack.pop()
        return ("other", type(x).__name__)

    stack = []
    real = tuple((name, cv(val)) for name, val in state_attrs())
    # the reference model's state is part of the canonical form as well: however the library keeps its
    # mappings (a representation this walk cannot see into would otherwise merge every state into one),
    # two states with different live mappings are different states
    model = tuple(tuple(sorted((repr(k), lab(o)) for k, o in w.model[c].items())) for c in range(len(w.cls)))
    return (real, model)


def _unused_real_state_tail(w):
    import types
    out = []
    metas = []
    for c in w.cls:
        if not any(type(c) is m for m in metas):
            metas.append(type(c))
    for holder in metas + w.cls:
        for name in sorted(vars(holder)):
            if name.startswith("__") and name.endswith("__"):
                continue
            val = vars(holder)[name]
            if isinstance(val, (types.FunctionType, types.MethodType, classmethod, staticmethod, property)):
                continue
            if callable(val) and not isinstance(val, type):
                continue
            out.append((name, cv(val)))
    return tuple(out)


def observe(w):
    """Full behavioural table, compared with the model.  Returns list of mismatch descriptions."""
    bad = []
    before = real_state(w)
    for c, cls in enumerate(w.cls):
        for kname in w.all_keys():
            a = ARGS[kname]
            if w.kind[c] == "custom" and not a[0]:
                continue
            try:
                r = S.check_semi_singleton_entry_exists(cls, *a[0], **a[1])
            except Exception as e:  # noqa: BLE001
                bad.append(("check-raised", c, kname, type(e).__name__))
                continue
            exp = w.model[c].get(w.mkey(c, kname))
            if r is not exp:
                bad.append(("check_entry_exists-differs-from-live-mappings", c, kname,
                            "None" if r is None else type(r).__name__,
                            "None" if exp is None else type(exp).__name__))
        try:
            got = list(S.get_all_semi_singleton_instances(cls))
        except Exception as e:  # noqa: BLE001
            bad.append(("get_all-raised", c, type(e).__name__))
            continue
        if {id(x) for x in got} != {id(x) for x in w.model[c].values()}:
            bad.append(("get_all-differs-from-live-instances", c, len(got), len({id(x) for x in w.model[c].values()})))
    if real_state(w) != before:
        bad.append(("observers-changed-the-mappings",))
    return bad


class Sys:
    rebuild = True

    def __init__(self, spec):
        self.spec = spec

    def initial(self):
        return World(self.spec)

    def ops(self, w):
        out = []
        nc = len(w.cls)
        for c in range(nc):
            for kname in self.spec["keys"]:
                if w.kind[c] == "custom" and not ARGS[kname][0]:
                    continue
                out.append(("new", c, kname))
        for c in range(nc):
            cands = list(range(len(w.focus_instances(c))))
            if w.dead(c) is not None:
                cands.append("dead")         # an instance the caller still holds although no key maps to it
            for j in cands:
                for kname in self.spec["keys"]:
                    if w.kind[c] == "custom" and not ARGS[kname][0]:
                        continue
                    out.append(("add_mapping", c, j, kname))
        for c in range(nc):
            for kname in self.spec["keys"]:
                if w.kind[c] == "custom" and not ARGS[kname][0]:
                    continue
                out.append(("drop", c, kname))
        for c in range(nc):
            out.append(("clear", c))
        return out

    def apply(self, w, op):
        """Executes the op, updates the model, records step verdicts in w.step_bad."""
        w.step_bad = []
        k = op[0]
        try:
            if k == "new":
                c, a = op[1], ARGS[op[2]]
                mk = w.mkey(c, op[2])
                before = w.inits["total"]
                if op[2] in ("xE", "xB") and mk not in w.model[c]:
                    # a failing construction: must raise every time, run __init__ every time, and map nothing
                    try:
                        o = w.cls[c](*a[0], **a[1])
                    except (InitFailed, InitAborted):
                        if w.inits["total"] - before != 1:
                            w.step_bad.append("failing-init-count")
                        return ("exc", "init-raised")
                    w.keep.append(o)
                    w.step_bad.append("failing-construction-returned-an-object")
                    return ("ret", "instance")
                o = w.cls[c](*a[0], **a[1])
                ran = w.inits["total"] - before
                w.keep.append(o)
                if mk in w.model[c]:
                    if o is not w.model[c][mk]:
                        w.step_bad.append("live-key-returned-another-object")
                    if ran:
                        w.step_bad.append("init-ran-again-for-live-key")
                else:
                    if any(o is x for m in w.model for x in m.values()):
                        w.step_bad.append("new-key-returned-existing-instance")
                    elif ran != 1 or w.inits[id(o)] != 1:
                        w.step_bad.append("init-count-for-new-key")
                    elif o.a != a[0] or o.k != a[1]:
                        w.step_bad.append("init-arguments")
                    w.model[c][mk] = o
                if type(o) is not w.cls[c]:
                    w.step_bad.append("returned-object-is-not-instance-of-called-class")
                return ("ret", "instance")
            if k == "add_mapping":
                c, j, a = op[1], op[2], ARGS[op[3]]
                inst = w.dead(c) if j == "dead" else w.focus_instances(c)[j]
                S.add_mapping(inst, *a[0], **a[1])
                w.model[c][w.mkey(c, op[3])] = inst
                return ("ret", None)
            if k == "drop":
                c, a = op[1], ARGS[op[2]]
                mk = w.mkey(c, op[2])
                live = mk in w.model[c]
                try:
                    S.drop_semi_singleton_mapping(w.cls[c], *a[0], **a[1])
                    r = ("ret", None)
                except Exception as e:  # noqa: BLE001
                    if live:
                        w.step_bad.append("drop-of-live-mapping-raised")
                    r = ("exc", type(e).__name__)
                w.model[c].pop(mk, None)
                return r
            if k == "clear":
                S.clear_semi_singleton(w.cls[op[1]])
                w.model[op[1]] = {}
                return ("ret", None)
        except Exception as e:  # noqa: BLE001
            w.step_bad.append(f"raised-{type(e).__name__}")
            return ("exc", type(e).__name__)
        return engine_h.SKIP

    def canon(self, w):
        return real_state(w)

    def check(self, pre, op, post, obs):
        bad = list(post.step_bad)
        table = observe(post)
        bad += sorted({t[0] for t in table})
        if not bad:
            return []
        fp = f"{op_shape(pre, op)}|{'+'.join(sorted(set(bad)))}"
        return [(fp, {"op": list(op), "obs": obs, "step": post.step_bad, "table_mismatches": table[:6]})]

    def nontrivial(self, pre, op, post, obs):
        return any(pre.model)


def op_shape(pre, op):
    k = op[0]
    c = op[1]
    kind = pre.spec["classes"][c]
    kind = "sub" if kind.startswith("sub") else ("shared" if kind.startswith("shared") else kind)
    if k == "clear":
        others = any(m for i, m in enumerate(pre.model) if i != c)
        return f"clear|class={kind}|other-classes-{'populated' if others else 'empty'}"
    kname = op[3] if k == "add_mapping" else op[2]
    live = pre.mkey(c, kname) in pre.model[c]
    # does another class hold the same key (cross-class interference)?
    elsewhere = any(pre.mkey(i, kname) in m for i, m in enumerate(pre.model) if i != c
                    and not (pre.kind[i] == "custom" and not ARGS[kname][0]))
    return f"{k}|class={kind}|key={kname}|{'live' if live else 'absent'}|{'also-live-in-other-class' if elsewhere else 'not-elsewhere'}"


def replay(rec, verbose=False):
    s = Sys(rec["pool"])
    w = s.initial()
    hist = [tuple(op) for op in rec["history"]]
    for op in hist[:-1]:
        s.apply(w, op)
    obs = s.apply(w, hist[-1])
    bad = list(w.step_bad) + observe(w)
    if verbose:
        print("  classes:", rec["pool"]["classes"], "keys:", {k: ARGS[k] for k in rec["pool"]["keys"]})
        print("  history:", hist)
        print("  last call ->", obs)
        print("  verdict:", bad)
    return bool(bad)


def run(tier, seed, log):
    rep = Report(PROP, tier, seed)
    tot = dict(states=0, transitions=0, validated=0, nontrivial=0, outcomes=0)
    pools_ev, samples = [], []
    exhaustive = True
    for spec in POOLS[tier]:
        log(f"[{PROP}] pool {spec}")
        res = engine_h.explore(Sys(spec), seed=seed, log=log)
        for fp, (n, rec) in res.viols.items():
            rec = dict(rec)
            rec["pool"] = spec
            rep.add(fp, rec, n)
        tot["states"] += res.states
        tot["transitions"] += res.transitions
        tot["validated"] += res.validated
        tot["nontrivial"] += res.nontrivial
        tot["outcomes"] += len(res.outcomes)
        exhaustive = exhaustive and res.exhaustive
        pools_ev.append({"pool": spec, "states": res.states, "transitions": res.transitions,
                         "max_depth": res.depth, "fixpoint": res.exhaustive, "cap_hit": res.cap,
                         "wall_s": round(res.wall, 1)})
        samples += [{"pool": spec, "history": h} for h in res.sample_histories[-3:]]
    pump = PUMPED[tier]
    pstates = ptrans = 0
    for n in pump["ns"]:
        keys = sorted({"n0", f"n{max(n - 1, 0)}", f"n{n}", f"n{n + 1}"}, key=lambda k: int(k[1:]))
        spec = {"classes": ["own"], "keys": keys, "pumped": n}
        res = engine_h.explore(Sys(spec), seed=seed, max_depth=pump["depth"])
        for fp, (cnt, rec) in res.viols.items():
            rec = dict(rec)
            rec["pool"] = spec
            rep.add("pumped|" + fp, rec, cnt)
        pstates += res.states
        ptrans += res.transitions
        tot["states"] += res.states
        tot["transitions"] += res.transitions
        tot["validated"] += res.validated
        tot["nontrivial"] += res.nontrivial
    log(f"[{PROP}] pumped classes n={pump['ns']} depth<={pump['depth']}: states={pstates} transitions={ptrans}")
    pools_ev.append({"pool": "pumped class (n live keys; every history of <= depth ops on the first / last / two new keys)",
                     "live_key_counts": pump["ns"], "depth": pump["depth"], "states": pstates,
                     "transitions": ptrans, "fixpoint": False})
    rep.coverage = {
        "states": tot["states"], "transitions": tot["transitions"],
        "traces_validated_against_impl": tot["validated"],
        "evaluations": tot["transitions"],
        "distinct_nontrivial": tot["nontrivial"],
        "rule": "every (state, op) pair over construct / add_mapping / drop / clear for every class and "
                "argument key of the pool, BFS to fixpoint; every transition replays its whole history on "
                "fresh classes; after every op the full check/get_all table of every class is compared "
                "with the model; non-trivial = some mapping is live in the pre-state",
        "exhaustive": exhaustive, "fixpoint": exhaustive, "pools": pools_ev,
        "distinct_observed_outcomes": tot["outcomes"], "samples": samples,
        "argument_keys": {k: repr(v) for k, v in ARGS.items()},
    }
    rep.assumptions = [
        "bounded pools of classes and argument keys; histories of every length",
        "states are merged on the real metaclass/class dict attributes (instances named by first visit)",
        "dropping an absent mapping may raise or not, but must change nothing",
    ]
    return rep.finish(confirm=replay)
