"""
C20 -- randgraph always returns a universe of exactly `count` well-formed vertices.

Engine F with the random source owned: during each call the module attribute
`edgegraph.builder.randgraph.random` is replaced by a proxy whose randint(a, b)
is a choice point over every integer of [a, b] and whose sample(pop, k) is a
choice point over every k-permutation of pop (raising ValueError exactly when the
real one would).  Any other attribute of the proxy is a harness error (unowned
nondeterminism).  count <= 4: every answer sequence (complete); count 5..7:
default answers plus every 1- and 2-deviation.  x 3 edge types x 5
connectivities x 2 ensurelink.  Plus a finite seed sweep with the real `random`
for reproducibility.
"""

import itertools
import math
import random as _real_random

from edgegraph.structure import Vertex, Universe, DirectedEdge, UnDirectedEdge
from edgegraph.builder import randgraph as rg

from .. import engine_e, engine_f
from ..fixtures_mod import OtherTwoEnded
from ..report import Report, HarnessError
from ..structure import reset_globals

PROP = "C20"

EDGES = {"D": DirectedEdge, "U": UnDirectedEdge, "O": OtherTwoEnded}
CONNS = {"default": None, "0": 0, "0.25": 0.25, "0.5": 0.5, "1.0": 1.0}

TIERS = {
    "quick": dict(complete=(1, 2, 3, 4), bounded=(5, 6), bound=2, seeds=200, seed_counts=(1, 2, 3, 5, 8, 15)),
    "thorough": dict(complete=(1, 2, 3, 4), bounded=(5, 6, 7, 8, 10), bound=2, seeds=2000,
                     seed_counts=(1, 2, 3, 4, 5, 6, 8, 15, 30),
                     # count 5 complete (about 1.1e7 answer sequences per combination at connectivity 1),
                     # sharded over the workers by the first six choice points
                     sharded=[(5, en, cn, el) for en in ("D", "U") for cn in ("1.0", "0.5") for el in (True, False)]),
}


SAMPLE_FULL_LIMIT = 720


class RandomProxy:
    def __init__(self, chooser, reduced=False):
        self._c = chooser
        self._reduced = reduced

    def randint(self, a, b):
        if not (isinstance(a, int) and isinstance(b, int)):
            raise HarnessError("randint with non-integer bounds")
        if b < a:
            raise ValueError("empty range for randrange()")
        return a + self._c.choose(b - a + 1, f"randint({a},{b})")

    def sample(self, population, k):
        pop = list(population)
        n = len(pop)
        if not 0 <= k <= n:
            raise ValueError("Sample larger than population or is negative")
        total = math.perm(n, k)
        if self._reduced and total > SAMPLE_FULL_LIMIT:
            # deviation-bounded tiers for larger counts: the complete set of k-permutations is
            # astronomically large, so the answer alphabet is reduced to 2n representatives: the k
            # elements starting at every offset of the population, forwards and backwards
            idx = self._c.choose(2 * n, f"sample(n={n},k={k},reduced)")
            s0, rev = idx % n, idx >= n
            rot = pop[s0:] + pop[:s0]
            if rev:
                rot = rot[::-1]
            return rot[:k]
        idx = self._c.choose(total, f"sample(n={n},k={k})")
        # idx-th k-permutation in lexicographic order of positions (0 = first k elements in order)
        avail = list(range(n))
        out = []
        for j in range(k):
            block = math.perm(n - j - 1, k - j - 1)
            q, idx = divmod(idx, block)
            out.append(pop[avail.pop(q)])
        return out

    def __getattr__(self, name):
        raise HarnessError(f"unowned nondeterminism: randgraph used random.{name}")


def postconditions(res, count, edge_cls, ensurelink):
    """Returns a symptom or None."""
    if not isinstance(res, Universe):
        return f"returned-{type(res).__name__}"
    verts = res.vertices
    if len(verts) != count:
        return "number-of-vertices"
    try:
        labels = sorted(v.i for v in verts)
    except AttributeError:
        return "vertex-without-i"
    if labels != list(range(count)):
        return "labels-not-0..count-1"
    mem = {id(v) for v in verts}
    for v in verts:
        is_v1 = False
        for l in v.links:
            if type(l) is not edge_cls:
                return "link-of-other-type"
            ends = l.vertices
            if len(ends) != 2 or any(e is None or id(e) not in mem for e in ends):
                return "link-end-outside-universe"
            if ends[0] is v:
                is_v1 = True
        if ensurelink and not is_v1:
            return "ensurelink-vertex-without-outgoing-link"
    return None


def run_once(count, en, cn, ensurelink, prefix, reduced=False):
    reset_globals()
    chooser = engine_f.Chooser(prefix)
    saved = rg.random
    rg.random = RandomProxy(chooser, reduced)
    try:
        try:
            res = rg.randgraph(count=count, edge=EDGES[en], connectivity=CONNS[cn], ensurelink=ensurelink)
            bad = postconditions(res, count, EDGES[en], ensurelink)
        except HarnessError:
            raise
        except Exception as e:  # noqa: BLE001
            bad = f"raised-{type(e).__name__}"
    finally:
        rg.random = saved
    return bad, chooser.trace


def per_case(case):
    kind = case[0]
    if kind == "seed":
        _, count, en, cn, ensurelink, s = case
        outs = []
        for _ in range(2):
            reset_globals()
            _real_random.seed(s)
            try:
                u = rg.randgraph(count=count, edge=EDGES[en], connectivity=CONNS[cn], ensurelink=ensurelink)
                vs = u.vertices
                outs.append([(v.i, [(l.vertices[0].i, l.vertices[1].i) for l in v.links]) for v in vs])
                bad = postconditions(u, count, EDGES[en], ensurelink)
            except Exception as e:  # noqa: BLE001
                bad = f"raised-{type(e).__name__}"
                outs.append(bad)
            if bad:
                return 1, 1, [(f"seeded|count={'1' if count == 1 else '>1'}|conn={cn}|{bad}",
                               {"case": list(case)})], bad
        if outs[0] != outs[1]:
            return 1, 1, [(f"seeded|not-reproducible|conn={cn}", {"case": list(case)})], "nonrepro"
        return 1, 1, [], "ok"
    _, count, en, cn, ensurelink, bound = case[:6]
    root = tuple(case[6]) if len(case) > 6 else ()
    viols = {}
    stats = {"n": 0, "nontriv": 0}
    outcomes = set()

    reduced = bound is not None          # deviation-bounded scenarios use the reduced sample alphabet
    def run(prefix):
        bad, trace = run_once(count, en, cn, ensurelink, prefix, reduced)
        stats["n"] += 1
        stats["nontriv"] += any(n > 1 for n, _ in trace)
        outcomes.add(tuple(c for _, c in trace))
        if bad:
            cgrp = "1" if count == 1 else ("2-4" if count <= 4 else ">=5")
            fp = f"randgraph|count={cgrp}|edge={en}|conn={cn}|ensurelink={ensurelink}|{bad}"
            if fp not in viols:
                viols[fp] = {"case": list(case), "choices": [c for _, c in trace], "reduced": reduced}
        return trace

    n_exec, max_len, trunc = engine_f.enumerate_choices(run, bound=bound, root=root)
    return n_exec, stats["nontriv"], list(viols.items()), (count, "complete" if bound is None else f"dev<={bound}")


def replay(rec, verbose=False):
    case = rec["case"]
    if case[0] == "seed":
        r = per_case(tuple(case))
        if verbose:
            print("  seeded call", case, "->", r[3])
        return bool(r[2])
    _, count, en, cn, ensurelink, bound = case
    bad, trace = run_once(count, en, cn, ensurelink, rec["choices"], rec.get("reduced", False))
    if verbose:
        print(f"  randgraph(count={count}, edge={en}, connectivity={cn}, ensurelink={ensurelink})")
        print("  answers of the random source (alternatives, chosen):", trace)
        print("  verdict:", bad)
    return bad is not None


def run(tier, seed, log):
    t = TIERS[tier]
    rep = Report(PROP, tier, seed)
    cases = []
    for count in t["complete"]:
        for en in EDGES:
            for cn in CONNS:
                for el in (True, False):
                    cases.append(("enum", count, en, cn, el, None))
    for count in t["bounded"]:
        for en in EDGES:
            for cn in CONNS:
                for el in (True, False):
                    cases.append(("enum", count, en, cn, el, t["bound"]))
    for (count, en, cn, el) in t.get("sharded", ()):
        def probe(prefix, count=count, en=en, cn=cn, el=el):
            return run_once(count, en, cn, el, prefix)[1]
        for pre in engine_f.split_prefixes(probe, 6):
            cases.append(("enum", count, en, cn, el, None, tuple(pre)))
    seed_cases = []
    for count in t["seed_counts"]:
        for cn in ("default", "0.5"):
            for s in range(t["seeds"]):
                seed_cases.append(("seed", count, "D", cn, True, s))
    res = engine_e.explore(cases, per_case, seed=seed, log=log, label="random-source enumeration")
    res2 = engine_e.explore(seed_cases, per_case, seed=seed, log=log, label="seed sweep")
    for r in (res, res2):
        for fp, (n, rec) in r.viols.items():
            rep.add(fp, rec, n)
    per_count = {}
    for (count, mode), n in res.outcomes.items():
        per_count[f"count={count} {mode}"] = per_count.get(f"count={count} {mode}", 0) + n
    rep.coverage = {
        "states": res.evaluations,
        "transitions": res.evaluations,
        "traces_validated_against_impl": res.evaluations,
        "evaluations": res.evaluations + res2.evaluations,
        "distinct_nontrivial": res.nontrivial,
        "rule": "every execution is one complete answer sequence of the owned random source (randint: every "
                "integer of the range; sample: every k-permutation), run on the real randgraph(); complete for "
                f"count in {list(t['complete'])} (and count 5 for {len(t.get('sharded', ()))} combinations in the "
                f"thorough tier), default answers plus all <= {t['bound']}-deviations for count in "
                f"{list(t['bounded'])}; x 3 edge types x 5 connectivities x 2 ensurelink; distinct by construction "
                "(each leaf of the choice tree once); non-trivial = the execution had a real choice",
        "exhaustive": True,
        "scenario_cases": len(cases),
        "seed_sweep_cases": res2.evaluations,
        "cases_by_mode": per_count,
        "samples": [{"scenario": list(c)} for c in res.samples] + [{"seeded": list(c)} for c in res2.samples[:1]],
    }
    rep.assumptions = [
        "randgraph draws only through random.randint and random.sample (anything else is a harness error)",
        "counts above the complete range are covered up to 2 deviations from the default answers and by a "
        "finite seed sweep (not exhaustive); there, a sample() with more than 720 possible answers is "
        "answered from a reduced alphabet of 2n representatives (every offset, forwards and backwards)",
    ]
    rep.level = "model_checking"
    return rep.finish(confirm=replay)
