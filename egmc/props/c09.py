"""
C09 -- find_links returns exactly the links neighbors() would follow from a to b.

Engine G over the graph space of C04.  Per state: every ordered pair (a, b)
incl. a is b x direction_sensitive x 3 unknown modes x 4 filters:
 (i)   set equality with the oracle (or NotImplementedError),
 (ii)  whenever both return: len(find_links(a, b, ...)) == multiplicity of b in
       neighbors(a, FORWARD if ds else ANY, unk, lambda e, v: f(e)),
 (iii) on a fresh copy of the state, after unlink(a, b): find_links(a, b) and
       find_links(b, a) are empty for every setting, and the answers for every
       other pair {c, d} are unchanged.
"""

import collections

from edgegraph.structure import Vertex
from edgegraph.traversal import helpers
from edgegraph.builder import explicit

from .. import engine_g, oracles
from ..fixtures_mod import FL_FILTERS, UNKS
from ..report import Report

PROP = "C09"

ALL6 = ("D", "U", "Ds", "Us", "T", "O")
SPACES = {
    "quick": [
        dict(nv=3, maxl=2, classes=ALL6),
        dict(nv=2, maxl=3, minl=3, classes=("D", "U", "O")),
        dict(nv=2, maxl=5, minl=4, classes=("D",)),          # many links on one vertex
        dict(nv=3, maxl=2, classes=("D", "U", "O"), twin=True),   # the last vertex carries the first one's uid
    ],
    "thorough": [
        dict(nv=3, maxl=3, classes=("D", "U", "Ds", "O")),
        dict(nv=3, maxl=2, classes=ALL6, mutations=True),
        dict(nv=2, maxl=4, minl=4, classes=("D", "U", "O")),
        dict(nv=2, maxl=7, minl=5, classes=("D", "U")),
        dict(nv=3, maxl=6, minl=4, classes=("D",), pairs=[(0, 1), (1, 0), (0, 2)]),
    ],
}
SPACES["quick"] += engine_g.family_specs(list(range(4, 13)) + [16, 17])
SPACES["thorough"] += engine_g.family_specs(list(range(4, 13)) + [16, 17, 32, 33])
FILTERS = ("none", "accept", "reject", "sell")

# neighbour-style wrappers of the link-only filters (same selection, (edge, vertex) signature)
_NBF = {
    "none": None,
    "accept": lambda e, v: FL_FILTERS["accept"](e),
    "reject": lambda e, v: FL_FILTERS["reject"](e),
    "sell": lambda e, v: FL_FILTERS["sell"](e),
}


def call_fl(a, b, ds, u, f):
    try:
        r = helpers.find_links(a, b, direction_sensitive=ds, unknown_handling=u, filterfunc=f)
        return ("ret", r)
    except NotImplementedError:
        return ("exc", "NotImplementedError")
    except Exception as e:  # noqa: BLE001
        return ("exc", type(e).__name__)


def judge_set(w, a, b, ds, un, fn):
    va, vb = w.v[a], w.v[b]
    exp, mode = oracles.fl_oracle(va, vb, ds, UNKS[un], FL_FILTERS[fn])
    got = call_fl(va, vb, ds, UNKS[un], FL_FILTERS[fn])
    if got[0] == "exc":
        if got[1] == "NotImplementedError" and mode in (oracles.RAISES, oracles.EITHER):
            return None, got
        return f"raised-{got[1]}", got
    if mode == oracles.RAISES:
        return "did-not-raise-NotImplementedError", got
    r = got[1]
    if not isinstance(r, (set, frozenset)):
        return f"returned-{type(r).__name__}", got
    gi, ei = {id(x) for x in r}, {id(x) for x in exp}
    if gi == ei:
        return None, got
    if gi < ei:
        return "missing-link", got
    if gi > ei:
        return "extra-link", got
    return "wrong-links", got


def judge_count(w, a, b, ds, un, fn, got):
    """(ii): size relation with neighbors(); None if not applicable or fine."""
    if got[0] != "ret":
        return None
    d = oracles.FWD if ds else oracles.ANY
    try:
        nb = helpers.neighbors(w.v[a], direction_sensitive=d, unknown_handling=UNKS[un], filterfunc=_NBF[fn])
    except NotImplementedError:
        return None
    mult = sum(1 for x in nb if x is w.v[b])
    if mult != len(got[1]):
        return f"size-{'below' if len(got[1]) < mult else 'above'}-neighbors-multiplicity"
    return None


def answers(w):
    """index sets of find_links for every pair and setting (for the unlink leg)"""
    out = {}
    nv = len(w.v)
    for a in range(nv):
        for b in range(nv):
            for ds in (True, False):
                for un in UNKS:
                    for fn in FILTERS:
                        g = call_fl(w.v[a], w.v[b], ds, UNKS[un], FL_FILTERS[fn])
                        out[(a, b, ds, un, fn)] = (
                            frozenset(w.lid(x) for x in g[1]) if g[0] == "ret" else g[1])
    return out


def judge_unlink(spec, seq, a, b, base, caching=False):
    """(iii) on a fresh copy.  Returns list of (kind, key)."""
    w2, ok = engine_g.build(spec, seq, validate=False)
    Vertex.NEIGHBOR_CACHING = caching
    if caching:
        warm_all(w2)
        raising_first(w2)
    try:
        explicit.unlink(w2.v[a], w2.v[b])
    except Exception as e:  # noqa: BLE001
        return [(f"unlink-raised-{type(e).__name__}", None)]
    after = answers(w2)
    bad = []
    for key, val in after.items():
        c, d = key[0], key[1]
        if {c, d} == {a, b}:
            if isinstance(val, frozenset) and val:
                bad.append(("found-after-unlink", key))
        elif val != base[key]:
            bad.append(("other-pair-changed-by-unlink", key))
    return bad


def warm_all(w):
    """with caching on: fill every vertex's memo for all direction / unknown-mode combinations"""
    for v in w.v:
        for d in (oracles.FWD, oracles.ANY, oracles.BWD):
            for u in UNKS.values():
                try:
                    helpers.neighbors(v, d, u, None)
                except NotImplementedError:
                    pass


def raising_first(w):
    """with caching on: the calls that may raise (unknown link class under the raising mode) come first,
    for every pair and setting -- a failed call must not spoil the valid ones that follow"""
    for a in range(len(w.v)):
        for b in range(len(w.v)):
            for ds in (True, False):
                for fn in FILTERS:
                    call_fl(w.v[a], w.v[b], ds, UNKS["ERR"], FL_FILTERS[fn])


def per_state(spec, seq, w):
    ev, nt, viols = _per_state(spec, seq, w, False)
    # the same evaluation with neighbour caching on and warm memos (find_links must not depend on it)
    w2, _ = engine_g.build(spec, seq, validate=False)
    ev2, nt2, viols2 = _per_state(spec, seq, w2, True)
    Vertex.NEIGHBOR_CACHING = False
    return ev + ev2, nt + nt2, viols + viols2, None


def _per_state(spec, seq, w, caching):
    Vertex.NEIGHBOR_CACHING = caching
    if caching:
        warm_all(w)
    evals = nontriv = 0
    viols = []
    nv = len(w.v)
    sq = [list(o) for o in seq]
    # with caching on the table is gone through twice: the second pass sees whatever the first one --
    # including its calls that raised -- left behind
    if caching:
        raising_first(w)
    for npass in ((1, 2) if caching else (1,)):
      if viols:
          break
      for a in range(nv):
        for b in range(nv):
              joined = any((l.vertices[0] is w.v[a] and l.vertices[1] is w.v[b]) or
                           (l.vertices[0] is w.v[b] and l.vertices[1] is w.v[a]) for l in w.v[a].links)
              for ds in (True, False):
                  for un in UNKS:
                      for fn in FILTERS:
                          evals += 2
                          nontriv += 2 * joined
                          bad, got = judge_set(w, a, b, ds, un, fn)
                          if bad:
                              viols.append((f"find_links|ds={ds}|unknown={un}|filter={fn}|{'a=b' if a == b else 'a!=b'}|{bad}{'|caching-on' if caching else ''}{'|second-pass' if npass == 2 else ''}",
                                            {"seq": sq, "space": _plain(spec), "case": ["set", a, b, ds, un, fn], "caching": caching, "npass": npass}))
                              continue
                          bad = judge_count(w, a, b, ds, un, fn, got)
                          if bad:
                              viols.append((f"count|ds={ds}|unknown={un}|filter={fn}|{'a=b' if a == b else 'a!=b'}|{bad}{'|caching-on' if caching else ''}{'|second-pass' if npass == 2 else ''}",
                                            {"seq": sq, "space": _plain(spec), "case": ["count", a, b, ds, un, fn], "caching": caching, "npass": npass}))
    if not viols and w.l:
        base = answers(w)
        if nv > 4:        # larger graphs (families): a few pairs only
            upairs = sorted({(0, 1), (0, nv - 1), (nv // 2, nv // 2 + 1), (1, 2), (0, 0)})
        else:
            upairs = [(a, b) for a in range(nv) for b in range(a, nv)]
        for a, b in upairs:
            for _once in (0,):
                evals += len(base)
                nontriv += 1
                for kind, key in judge_unlink(spec, seq, a, b, base, caching)[:3]:
                    viols.append((f"unlink|{'a=b' if a == b else 'a!=b'}|{kind}{'|caching-on' if caching else ''}",
                                  {"seq": sq, "space": _plain(spec), "case": ["unlink", a, b], "caching": caching}))
    return evals, nontriv, viols


def _plain(spec):
    return {k: (list(v) if isinstance(v, tuple) else v) for k, v in spec.items() if k != "explicit"}


def replay(rec, verbose=False):
    spec = rec["space"]
    seq = [tuple(o) for o in rec["seq"]]
    w, ok = engine_g.build(spec, seq)
    caching = bool(rec.get("caching"))
    Vertex.NEIGHBOR_CACHING = caching
    if caching:
        warm_all(w)
        raising_first(w)
    case = rec["case"]
    if verbose:
        from ..structure import observe
        print("  graph ops:", seq, " neighbour caching:", caching)
        print("  structure:", observe(w)["lv"], observe(w)["cl"], "well-formed:", ok)
    try:
        return _replay_case(rec, spec, seq, w, case, caching, verbose)
    finally:
        Vertex.NEIGHBOR_CACHING = False


def _replay_case(rec, spec, seq, w, case, caching, verbose):
    if case[0] in ("set", "count"):
        _, a, b, ds, un, fn = case
        if rec.get("npass") == 2:
            # the whole first pass first (what it leaves behind is what the recorded call reads)
            for a1 in range(len(w.v)):
                for b1 in range(len(w.v)):
                    for ds1 in (True, False):
                        for un1 in UNKS:
                            for fn1 in FILTERS:
                                judge_set(w, a1, b1, ds1, un1, fn1)
            for a1 in range(len(w.v)):
                for b1 in range(len(w.v)):
                    for ds1 in (True, False):
                        for un1 in UNKS:
                            for fn1 in FILTERS:
                                if (a1, b1, ds1, un1, fn1) == (a, b, ds, un, fn):
                                    break
                                judge_set(w, a1, b1, ds1, un1, fn1)
                            else:
                                continue
                            break
                        else:
                            continue
                        break
                    else:
                        continue
                    break
                else:
                    continue
                break
        bad, got = judge_set(w, a, b, ds, un, fn)
        if case[0] == "count" and not bad:
            bad = judge_count(w, a, b, ds, un, fn, got)
        if verbose:
            exp, mode = oracles.fl_oracle(w.v[a], w.v[b], ds, UNKS[un], FL_FILTERS[fn])
            print(f"  find_links(v{a}, v{b}, direction_sensitive={ds}, {un}, filter={fn})")
            print("   expected links:", sorted(w.lid(x) for x in exp), mode)
            print("   got           :", sorted(w.lid(x) for x in got[1]) if got[0] == "ret" else got)
            print("   verdict:", bad)
        return bad is not None
    _, a, b = case
    base = answers(w)
    bad = judge_unlink(spec, seq, a, b, base, caching)
    if verbose:
        print(f"  after unlink(v{a}, v{b}):", bad[:5])
    return bool(bad)


def run(tier, seed, log):
    rep = Report(PROP, tier, seed)
    results = []
    for spec in SPACES[tier]:
        res = engine_g.explore(spec, per_state, seed=seed, log=log)
        for fp, (n, rec) in res.viols.items():
            rep.add(fp, rec, n)
        results.append((res, _plain(spec)))
    rep.coverage = engine_g.merge_coverage(
        results,
        "every ordered multigraph of each space; per state every ordered vertex pair (incl. a is b) x "
        "direction flag x 3 unknown modes x 4 filters: set oracle and size relation with neighbors(); then "
        "for every unordered pair, unlink on a fresh copy and re-query every pair and setting; all of it again with "
        "caching on and warm memos (every raising-mode call first, then the table twice); non-trivial "
        "= the pair is joined by a link")
    rep.assumptions = ["caching off; ends are vertices",
                       "ERROR mode: when the filter rejects every unknown-class joining link, raising and not "
                       "raising are both accepted"]
    return rep.finish(confirm=replay)
