"""
C13 -- read-only operations never change the graph, even when a user callback raises.

Engine F over engine-G states.  For every graph state, membership list, caching
flag and read-only entry point, every user callback is a counting wrapper
object; the fault-free run fixes the number N of its invocations, then a fault
is injected at invocation k for every k <= N and every exception type (and, for
exception types the library itself swallows around a callback, at every pair of
invocations).  Oracle: a deep snapshot (complete vars() of every vertex, link,
universe and law set; the neighbour memo is the one attribute exempted) is
identical before and after however the call ended; the same call repeated on the
same objects with the *same* wrapper object, healed, returns exactly what it
returns on a pristine twin.
"""

import itertools

from edgegraph.structure import Vertex, Universe
from edgegraph.traversal import helpers, breadthfirst, depthfirst
from edgegraph.output import plaintext, plantuml, nrpickler
from edgegraph.output import pyvis as egpyvis
from edgegraph.structure import DirectedEdge, UnDirectedEdge, TwoEndedLink

from .. import engine_g, canon as _canon
from ..report import Report

PROP = "C13"

SPACES = {
    "quick": [dict(nv=3, maxl=2, classes=("D", "U", "O")),
              dict(nv=3, maxl=1, classes=("D", "U"), twin=True)],     # the last vertex carries the first one's uid
    "thorough": [dict(nv=3, maxl=3, classes=("D", "U", "O")),
                 dict(nv=4, maxl=2, classes=("D", "U")),
                 dict(nv=3, maxl=2, classes=("D", "U"), twin=True)],
}


class Boom(Exception):
    pass


EXC = {"Boom": Boom, "AssertionError": AssertionError, "StopIteration": StopIteration}
from ..structure import memo_attrs


class Wrapper:
    """Counting, fault-injecting callback.  Identity-hashed, so it is a stable cache key."""

    def __init__(self, base):
        self.base = base
        self.n = 0
        self.fail_at = ()
        self.exc = Boom

    def arm(self, fail_at, exc):
        self.n = 0
        self.fail_at = tuple(fail_at)
        self.exc = exc

    def heal(self):
        self.n = 0
        self.fail_at = ()

    def __call__(self, *a, **k):
        self.n += 1
        if self.n in self.fail_at:
            raise self.exc()
        return self.base(*a, **k)


# ---- callbacks' well-behaved bases ------------------------------------------------
def b_filter(e, v):
    return getattr(e, "t", 0) % 2 == 0 or v.i != 1


def b_flfilter(e):
    return getattr(e, "t", 0) % 2 == 0


def b_result(v):
    return v.i != 2


def b_rfunc(v):
    return f"<{v.i}>"


def b_sort(v):
    return -v.i


def b_rvfunc(v):
    return f"n{v.i}"


def b_refunc(e):
    return type(e).__name__


def b_userrender(v, options):
    return f"object u{v.i}\n"


def puml_options(user=None):
    o = {
        Vertex: {"type": "object", "show_attrs": ["^i$"], "title_format": "v{i}"},
        DirectedEdge: {"v1side": "", "v2side": ">"},
        UnDirectedEdge: {"v1side": "", "v2side": ""},
        TwoEndedLink: {"v1side": "o", "v2side": "o"},
    }
    if user is not None:
        o[Vertex]["user_render_func"] = user
    return o


def net_desc(net):
    return ([(n.get("id"), n.get("label")) for n in net.nodes],
            sorted((e.get("from"), e.get("to"), e.get("arrows"), e.get("title")) for e in net.edges))


def strip_note(s):
    if s is None:
        return None
    # relation / skinparam lines come out in set-iteration order: compared as a sorted multiset
    return sorted(l for l in s.split("\n") if "edgegraph on" not in l)


# entry points: name -> (needs_universe, callback base or None, caller(w, uni, cb, arg) -> canonical answer)
def _idx(w, xs):
    return [w.vid(x) for x in xs]


ENTRIES = {}


def entry(name, scope, base):
    def deco(fn):
        ENTRIES[name] = (scope, base, fn)
        return fn
    return deco


@entry("neighbors:filterfunc", "vertex", b_filter)
def _e1(w, uni, cb, a):
    return _idx(w, helpers.neighbors(w.v[a], helpers.DIR_SENS_ANY, helpers.LNK_UNKNOWN_NEIGHBOR, cb))


@entry("neighbors-forward:filterfunc", "vertex", b_filter)
def _e1b(w, uni, cb, a):
    return _idx(w, helpers.neighbors(w.v[a], helpers.DIR_SENS_FORWARD, helpers.LNK_UNKNOWN_NEIGHBOR, cb))


@entry("find_links:filterfunc", "pair", b_flfilter)
def _e2(w, uni, cb, ab):
    return sorted(w.lid(x) for x in helpers.find_links(w.v[ab[0]], w.v[ab[1]], False, helpers.LNK_UNKNOWN_NEIGHBOR, cb))


def _trav(fn, which, gen):
    def call(w, uni, cb, s):
        kw = {"direction_sensitive": helpers.DIR_SENS_ANY, "unknown_handling": helpers.LNK_UNKNOWN_NEIGHBOR,
              which: cb}
        r = fn(uni, w.v[s], **kw)
        return _idx(w, list(r) if gen else r)
    return call


for _n, _f, _g in (("bft", breadthfirst.bft, False), ("ibft", breadthfirst.ibft, True),
                   ("dft_recursive", depthfirst.dft_recursive, False), ("idft_recursive", depthfirst.idft_recursive, True),
                   ("dft_iterative", depthfirst.dft_iterative, False), ("idft_iterative", depthfirst.idft_iterative, True)):
    ENTRIES[f"{_n}:ff_via"] = ("start", b_filter, _trav(_f, "ff_via", _g))
    ENTRIES[f"{_n}:ff_result"] = ("start", b_result, _trav(_f, "ff_result", _g))


def _search(fn):
    def call(w, uni, cb, s):
        r = fn(uni, w.v[s], "i", 2)
        return None if r is None else w.vid(r)
    return call


for _n, _f in (("bfs", breadthfirst.bfs), ("dfs_recursive", depthfirst.dfs_recursive),
               ("dfs_iterative", depthfirst.dfs_iterative)):
    ENTRIES[f"{_n}:(no callback)"] = ("start-du", None, _search(_f))


@entry("basic_render:rfunc", "universe-du", b_rfunc)
def _e5(w, uni, cb, _):
    return plaintext.basic_render(uni, rfunc=cb)


@entry("basic_render:sort", "universe-du", b_sort)
def _e6(w, uni, cb, _):
    return plaintext.basic_render(uni, rfunc=b_rfunc, sort=cb)


@entry("render_to_plantuml_src:user_render_func", "universe", b_userrender)
def _e7(w, uni, cb, _):
    return strip_note(plantuml.render_to_plantuml_src(uni, puml_options(cb)))


@entry("render_to_plantuml_src:(no callback)", "universe", None)
def _e7b(w, uni, cb, _):
    return strip_note(plantuml.render_to_plantuml_src(uni, puml_options()))


@entry("make_pyvis_net:rvfunc", "universe", b_rvfunc)
def _e8(w, uni, cb, _):
    return net_desc(egpyvis.make_pyvis_net(uni, rvfunc=cb, refunc=b_refunc))


@entry("make_pyvis_net:refunc", "universe", b_refunc)
def _e9(w, uni, cb, _):
    return net_desc(egpyvis.make_pyvis_net(uni, rvfunc=b_rvfunc, refunc=cb))


@entry("pyvis_render_customizable:rvfunc", "universe", b_rvfunc)
def _e10(w, uni, cb, _):
    return net_desc(egpyvis.pyvis_render_customizable(uni, rvfunc=cb, refunc=b_refunc))


@entry("pyvis_render_customizable:refunc", "universe", b_refunc)
def _e11(w, uni, cb, _):
    return net_desc(egpyvis.pyvis_render_customizable(uni, rvfunc=b_rvfunc, refunc=cb))


@entry("nrpickler.dumps:(no callback)", "universe", None)
def _e12(w, uni, cb, _):
    return len(nrpickler.dumps(uni)) > 0


# exception types the library swallows around a callback -> pairs of faults are enumerated too
SWALLOWED = {("make_pyvis_net:refunc", "AssertionError"), ("pyvis_render_customizable:refunc", "AssertionError")}


def member_lists(nv):
    return [tuple(range(nv))] + [tuple(i for i in range(nv) if i != k) for k in range(nv)]


def make_world(spec, seq, members, flag):
    w, _ = engine_g.build(spec, seq, validate=False)
    for v in w.v:
        v.color = ["red", v.i]         # an unrelated (mutable) attribute
    uni = Universe(vertices=[w.v[i] for i in members], attributes={"name": "U"})
    w.flag = flag
    Vertex.NEIGHBOR_CACHING = flag
    return w, uni


def snapshot(w, uni):
    return _canon.canon_graph(w.v + w.l + [uni], uid="keep", skip_attrs=memo_attrs())


def attr_names(w, uni):
    out = {}
    for k, o in enumerate(w.v + w.l + [uni]):
        out[k] = set(vars(o)) - set(memo_attrs())
    return out


def run_call(fn, w, uni, cb, arg):
    try:
        return ("ret", fn(w, uni, cb, arg))
    except BaseException as e:  # noqa: BLE001 - however the call ends
        if isinstance(e, (KeyboardInterrupt, SystemExit)):
            raise
        return ("exc", type(e).__name__)


def args_for(scope, w, members):
    if scope == "vertex":
        return list(range(len(w.v)))
    if scope == "pair":
        return [(a, b) for a in range(len(w.v)) for b in range(len(w.v))]
    if scope in ("start", "start-du"):
        return list(members)
    return [None]


def one_execution(spec, seq, members, flag, ename, arg, fail_at, excname, normal):
    """Returns symptom or None.  `normal` = canonical answer on a pristine twin (or None to skip)."""
    scope, base, fn = ENTRIES[ename]
    w, uni = make_world(spec, seq, members, flag)
    cb = Wrapper(base) if base is not None else None
    if cb is not None:
        cb.arm(fail_at, EXC[excname] if excname else Boom)
    s0 = snapshot(w, uni)
    n0 = attr_names(w, uni)
    out = run_call(fn, w, uni, cb, arg)
    s1 = snapshot(w, uni)
    if s0 != s1:
        n1 = attr_names(w, uni)
        added = sorted({a for k in n1 for a in n1[k] - n0[k]})
        removed = sorted({a for k in n1 for a in n0[k] - n1[k]})
        if added:
            return "graph-changed:attribute-added:" + ",".join(added), out
        if removed:
            return "graph-changed:attribute-removed:" + ",".join(removed), out
        return "graph-changed:attribute-values", out
    if cb is not None:
        cb.heal()
    again = run_call(fn, w, uni, cb, arg)
    if snapshot(w, uni) != s0:
        return "graph-changed-by-repeated-call", again
    if normal is not None and again != normal:
        return "repeated-call-with-healed-callback-differs-from-normal-answer", again
    return None, out


def uses_unknown(w):
    return any(type(l).__name__ == "OtherTwoEnded" for l in w.l)


def per_state(spec, seq, w0):
    evals = nontriv = 0
    viols = []
    sq = [list(o) for o in seq]
    nv = spec["nv"]
    has_x = uses_unknown(w0)
    for flag in (False, True):
        for members in member_lists(nv):
            full = len(members) == nv
            for ename, (scope, base, fn) in ENTRIES.items():
                if scope in ("vertex", "pair") and not full:
                    continue            # universe-independent entry points: once per state
                if scope.endswith("-du") and has_x:
                    continue            # default unknown handling raises on other link types
                w, uni = make_world(spec, seq, members, flag)
                for arg in args_for(scope, w, members):
                    # fault-free run on a pristine twin: normal answer and number of invocations
                    tw, tuni = make_world(spec, seq, members, flag)
                    tcb = Wrapper(base) if base is not None else None
                    normal = run_call(fn, tw, tuni, tcb, arg)
                    N = tcb.n if tcb is not None else 0
                    schedules = [((), None)]
                    if base is not None:
                        for k in range(1, N + 1):
                            for en in EXC:
                                schedules.append(((k,), en))
                        for en in EXC:
                            if (ename, en) in SWALLOWED:
                                for k1, k2 in itertools.combinations(range(1, N + 1), 2):
                                    schedules.append(((k1, k2), en))
                    for fail_at, en in schedules:
                        evals += 1
                        nontriv += bool(fail_at)
                        bad, out = one_execution(spec, seq, members, flag, ename, arg, fail_at, en, normal)
                        if bad:
                            when = "no-fault" if not fail_at else ("first" if fail_at[0] == 1 else "later") + \
                                ("+pair" if len(fail_at) > 1 else "")
                            fp = f"{ename}|fault={en or 'none'}@{when}|caching={flag}|{bad}"
                            viols.append((fp, {"seq": sq, "space": _plain(spec),
                                               "case": [list(members), flag, ename, arg, list(fail_at), en]}))
    return evals, nontriv, viols, None


def _plain(spec):
    return {k: (list(v) if isinstance(v, tuple) else v) for k, v in spec.items() if k != "explicit"}


def replay(rec, verbose=False):
    spec = rec["space"]
    seq = [tuple(o) for o in rec["seq"]]
    members, flag, ename, arg, fail_at, en = rec["case"]
    if isinstance(arg, list):
        arg = tuple(arg)
    scope, base, fn = ENTRIES[ename]
    tw, tuni = make_world(spec, seq, tuple(members), flag)
    tcb = Wrapper(base) if base is not None else None
    normal = run_call(fn, tw, tuni, tcb, arg)
    bad, out = one_execution(spec, seq, tuple(members), flag, ename, arg, tuple(fail_at), en, normal)
    if verbose:
        print("  graph ops:", seq, " members:", members, " caching:", flag)
        print(f"  entry point {ename}, argument {arg}; callback fails at invocation(s) {fail_at} with {en}")
        print("  normal answer (pristine twin):", str(normal)[:300])
        print("  outcome:", str(out)[:300])
        print("  verdict:", bad)
    Vertex.NEIGHBOR_CACHING = False
    return bad is not None


def run(tier, seed, log):
    rep = Report(PROP, tier, seed, level="fault_enumeration")
    results = []
    for spec in SPACES[tier]:
        res = engine_g.explore(spec, per_state, seed=seed, log=log)
        for fp, (n, rec) in res.viols.items():
            rep.add(fp, rec, n)
        results.append((res, _plain(spec)))
    cov = engine_g.merge_coverage(
        results,
        "every ordered multigraph of each space x caching off/on x membership lists (all, all minus one) x "
        f"{len(ENTRIES)} read-only entry point/callback pairs x every argument (vertex, pair, start) x fault "
        "schedule: none, and a fault at the k-th invocation of the callback for every k up to the number of "
        "invocations of the fault-free run x 3 exception types (pairs of faults where the library swallows the "
        "exception); each execution on freshly built objects; non-trivial = an execution with an injected fault; "
        "distinct by construction")
    cov["entry_points"] = sorted(ENTRIES)
    cov["exception_types"] = sorted(EXC)
    rep.coverage = cov
    rep.assumptions = [
        "the neighbour memo is the one attribute exempt from the snapshot (filling it is the point of caching; "
        "C05 covers its transparency); the healed repeat call still exposes a polluted memo entry",
        "searches and basic_render (default unknown handling) are driven on graphs of the two edge families",
    ]
    return rep.finish(confirm=replay)
