"""
C11 -- adjacency builders build exactly the described graph; bad input rejected whole.

Exhaustive enumeration of inputs (each case is one builder call on a freshly
built pool, i.e. one transition from the prior-structure state):
  * load_adj_dict: every dict whose keys are an ordered selection of <=3 vertices
    and whose values are every sequence of length <=2 (thorough <=3) over the
    vertices (repeats, self entries, empty rows; lists and tuples);
  * load_adj_matrix: every 1x1 and 2x2 matrix over the cell alphabet
    {0, 1, "x", None}, every 3x3 matrix over {0, 1}, with side arrays in index
    order, permuted, and with a repeated vertex; every malformed shape with <=3
    rows, row lengths <=3, side length <=3;
  x link type in {D, U, Ds, T, O} x prior structure in {none, one prior link and
  membership in an older universe}.
Oracle: reference-model replay of the documented construction + read-back through
neighbors() / find_links() + untouched prior structure; malformed input ->
ValueError with every pre-existing object unchanged.
"""

import collections
import itertools

from edgegraph.structure import Vertex, Universe, DirectedEdge, UnDirectedEdge
from edgegraph.traversal import helpers
from edgegraph.builder import adjlist, adjmatrix

from .. import engine_e
from ..report import Report
from ..structure import SWorld, LINK_CLASSES, observe, inv_links, inv_members

PROP = "C11"
NV = 3
LTYPES = ("D", "U", "Ds", "T", "O")
PRIORS = ("none", "prior")
CELLS = {"0": 0, "1": 1, "x": "x", "N": None}


def dict_cases(maxrow):
    rows = [r for n in range(maxrow + 1) for r in itertools.product(range(NV), repeat=n)]
    out = []
    for k in range(NV + 1):
        for keys in itertools.permutations(range(NV), k):
            for vals in itertools.product(rows, repeat=k):
                out.append(("dict", keys, vals))
    return out


def matrix_cases(tier):
    out = []
    sides = {1: [(0,), (2,)], 2: [(0, 1), (2, 0), (1, 1)], 3: [(0, 1, 2), (2, 0, 1), (0, 1, 0)]}
    for n in (1, 2):
        for cells in itertools.product("01xN", repeat=n * n):
            m = tuple(tuple(cells[i * n:(i + 1) * n]) for i in range(n))
            for side in sides[n]:
                out.append(("matrix", m, side))
    alphabet3 = "01" if tier == "quick" else "01x"
    for cells in itertools.product(alphabet3, repeat=9):
        if tier != "quick" and sum(c != "0" for c in cells) > 4:
            continue
        m = tuple(tuple(cells[i * 3:(i + 1) * 3]) for i in range(3))
        for side in sides[3]:
            out.append(("matrix", m, side))
    out.append(("matrix", (), ()))
    return out


def ladder_cases(tier):
    """
    Larger inputs along one dimension (size thresholds): n x n matrices that are zero except for
    one row (the first or the last) holding every choice of <= 2 (thorough <= 3) truthy columns, the full
    diagonal / anti-diagonal / last column / one full row; adjacency dicts with one long row.
    """
    sizes = list(range(4, 13)) + [16, 17] + ([32, 33] if tier != "quick" else [])
    out = []
    for n in sizes:
        side = tuple(range(n))
        zero = [["0"] * n for _ in range(n)]

        def mat(cells):
            m = [row[:] for row in zero]
            for (i, j) in cells:
                m[i][j] = "1"
            return tuple(tuple(r) for r in m)

        ksub = 2 if (tier == "quick" or n > 12) else 3
        for r in (0, n - 1):
            for k in range(1, ksub + 1):
                for cols in itertools.combinations(range(n), k):
                    out.append(("matrix", mat([(r, j) for j in cols]), side))
        out.append(("matrix", mat([(i, i) for i in range(n)]), side))
        out.append(("matrix", mat([(i, n - 1 - i) for i in range(n)]), side))
        out.append(("matrix", mat([(i, n - 1) for i in range(n)]), side))
        out.append(("matrix", mat([(n // 2, j) for j in range(n)]), tuple(reversed(range(n)))))
        # dicts: one key with a long row (ascending, descending, with a repeat and a self entry)
        out.append(("dict", (0,), (tuple(range(1, n)),)))
        out.append(("dict", (0,), (tuple(reversed(range(1, n))),)))
        out.append(("dict", (0, 1), (tuple(range(n)) + (1,), (0,))))
        out.append(("dict", tuple(range(n)), tuple((((i + 1) % n),) for i in range(n))))
    return out


def malformed_cases():
    out = []
    for nrows in range(0, 4):
        for lens in itertools.product(range(0, 4), repeat=nrows):
            for slen in range(0, 4):
                if all(l == nrows for l in lens) and slen == nrows:
                    continue            # well-formed
                m = tuple(tuple("1" for _ in range(l)) for l in lens)
                side = tuple(i % NV for i in range(slen))
                out.append(("malformed", m, side))
    return out


def case_nv(case):
    """pool size a case needs (at least NV)"""
    idx = [NV - 1]
    if case[0] == "dict":
        idx += list(case[1]) + [x for row in case[2] for x in row]
    else:
        idx += list(case[2])
    return max(idx) + 1


def make_pool(prior, nv=NV):
    w = SWorld(nv, 0)
    if prior == "prior":
        w.l.append(DirectedEdge(w.v[0], w.v[1]))
        w.u.append(Universe(vertices=[w.v[0], w.v[2]]))
    return w


def full_obs(w, extra_unis=()):
    o = observe(w)
    o["vu"] = [[("old", w.uid_(u)) if w.uid_(u) != "?" else
                ("new", next((k for k, x in enumerate(extra_unis) if x is u), "?")) for u in v.universes]
               for v in w.v]
    return o


def expected_structure(w_before, pairs, members):
    """pairs: [(i, j)] in creation order -> expected per-vertex new-link sequences"""
    per_vertex = [[] for _ in range(len(w_before.v))]
    for k, (i, j) in enumerate(pairs):
        per_vertex[i].append(k)
        if j != i:
            per_vertex[j].append(k)
    return per_vertex


def judge(case, lt, prior, verbose=False):
    kind = case[0]
    Vertex.NEIGHBOR_CACHING = False
    nv = case_nv(case)
    w = make_pool(prior, nv)
    cls = LINK_CLASSES[lt]
    before = observe(w)
    prior_links = [list(v.links) for v in w.v]
    prior_unis = [list(v.universes) for v in w.v]
    prior_uni_members = [list(u.vertices) for u in w.u]
    if kind == "dict":
        _, keys, vals = case
        rowtype = tuple if (len(keys) % 2) else list
        d = {w.v[k]: rowtype(w.v[x] for x in row) for k, row in zip(keys, vals)}
        pairs = [(k, x) for k, row in zip(keys, vals) for x in row]
        mention = []
        for k, row in zip(keys, vals):
            for x in (k,) + tuple(row):
                if x not in mention:
                    mention.append(x)
        call = lambda: adjlist.load_adj_dict(d, linktype=cls)      # noqa: E731
    else:
        _, m, side = case
        matrix = [[CELLS[c] for c in row] for row in m]
        verts = [w.v[i] for i in side]
        pairs = []
        if kind == "matrix":
            for i, row in enumerate(matrix):
                for j, cell in enumerate(row):
                    if cell:
                        pairs.append((side[i], side[j]))
        mention = list(dict.fromkeys(side))
        call = lambda: adjmatrix.load_adj_matrix(matrix, verts, linktype=cls)  # noqa: E731
    try:
        uni = call()
        raised = None
    except Exception as e:  # noqa: BLE001
        uni = None
        raised = type(e).__name__
    if verbose:
        print("   call ->", raised or "universe", " members:", None if uni is None else [w.vid(x) for x in uni.vertices])
    if kind == "malformed":
        if raised != "ValueError":
            return "malformed-input-accepted" if raised is None else f"malformed-input-raised-{raised}"
        if observe(w) != before:
            return "malformed-input-touched-the-graph"
        if any(len(v.universes) != len(pu) for v, pu in zip(w.v, prior_unis)):
            return "malformed-input-added-a-universe"
        return None
    if raised:
        return f"raised-{raised}"
    if not isinstance(uni, Universe):
        return "result-not-a-universe"
    if any(uni is u for u in w.u):
        return "returned-universe-not-new"
    if [w.vid(x) for x in uni.vertices] != mention:
        got = [w.vid(x) for x in uni.vertices]
        return "members-order" if sorted(map(repr, got)) == sorted(map(repr, mention)) else "members"
    # prior structure untouched
    for k, u in enumerate(w.u):
        if [id(x) for x in u.vertices] != [id(x) for x in prior_uni_members[k]]:
            return "prior-universe-changed"
    for i, v in enumerate(w.v):
        want = prior_unis[i] + ([uni] if i in mention else [])
        if [id(x) for x in v.universes] != [id(x) for x in want]:
            return "vertex-universes"
    # links
    exp_new = expected_structure(w, pairs, mention)
    new_links = []          # creation order, discovered from the keys' link lists
    for i, v in enumerate(w.v):
        ls = list(v.links)
        if [id(x) for x in ls[:len(prior_links[i])]] != [id(x) for x in prior_links[i]]:
            return "prior-links-changed"
    # reconstruct creation order: walk pairs, the k-th pair's link is the next unseen link of vertex i
    cursor = [len(prior_links[i]) for i in range(nv)]
    seen = set()
    for k, (i, j) in enumerate(pairs):
        ls = w.v[i].links
        if cursor[i] >= len(ls):
            return "link-missing"
        l = ls[cursor[i]]
        cursor[i] += 1
        if id(l) in seen:
            return "link-listed-out-of-order"
        seen.add(id(l))
        if type(l) is not cls:
            return "link-class"
        ends = l.vertices
        if len(ends) != 2 or ends[0] is not w.v[i] or ends[1] is not w.v[j]:
            if len(ends) == 2 and ends[0] is w.v[j] and ends[1] is w.v[i]:
                return "link-orientation"
            return "link-ends"
        if j != i:
            lj = w.v[j].links
            if cursor[j] >= len(lj) or lj[cursor[j]] is not l:
                return "link-order-at-value-vertex"
            cursor[j] += 1
    for i in range(nv):
        if cursor[i] != len(w.v[i].links):
            return "extra-link"
    if inv_links(w) or inv_members(w):
        return "asymmetric-structure"
    # read-back (edge families, no prior structure)
    if prior == "none" and lt in ("D", "U", "Ds"):
        directed = lt in ("D", "Ds")
        for a in range(nv):
            nb = [w.vid(x) for x in helpers.neighbors(w.v[a])]
            if directed:
                want = [j for (i, j) in pairs if i == a]
                if nb != want:
                    return "readback-neighbors"
            else:
                want = collections.Counter()
                for (i, j) in pairs:
                    if i == a:
                        want[j] += 1
                    elif j == a:
                        want[i] += 1
                if collections.Counter(nb) != want:
                    return "readback-neighbors"
            for b in (range(nv) if nv <= 4 else sorted({0, 1, nv // 2, nv - 1})):
                n = len(helpers.find_links(w.v[a], w.v[b]))
                if directed:
                    m_ = sum(1 for p in pairs if p == (a, b))
                else:
                    m_ = sum(1 for (i, j) in pairs if {i, j} == {a, b})
                if n != m_:
                    return "readback-find_links"
    return None


def per_case(c):
    case, lt, prior = c
    bad = judge(case, lt, prior)
    if case[0] == "dict":
        nontriv = int(any(case[2]))
    elif case[0] == "matrix":
        nontriv = int(any(CELLS[c] for row in case[1] for c in row))
    else:
        nontriv = 1
    if bad:
        kind = case[0]
        if kind == "dict":
            shape = f"dict|keys={len(case[1])}|{'self-entry' if any(k in row for k, row in zip(case[1], case[2])) else 'no-self'}" \
                    f"|{'value-not-key' if any(x not in case[1] for row in case[2] for x in row) else 'values-are-keys'}"
        elif kind == "matrix":
            shape = f"matrix|n={len(case[1])}|side={'repeated' if len(set(case[2])) < len(case[2]) else 'distinct'}"
        else:
            shape = "malformed"
        fp = f"{shape}|linktype={lt}|prior={prior}|{bad}"
        return 1, nontriv, [(fp, {"case": [list(map(list, x)) if isinstance(x, tuple) and x and isinstance(x[0], tuple)
                                            else (list(x) if isinstance(x, tuple) else x) for x in case],
                                  "linktype": lt, "prior": prior})], bad
    return 1, nontriv, [], "ok"


def _tuplify(x):
    if isinstance(x, list):
        return tuple(_tuplify(e) for e in x)
    return x


def replay(rec, verbose=False):
    case = tuple(_tuplify(x) for x in rec["case"])
    if verbose:
        print("  case:", case, " linktype:", rec["linktype"], " prior structure:", rec["prior"])
    bad = judge(case, rec["linktype"], rec["prior"], verbose=verbose)
    if verbose:
        print("  verdict:", bad)
    return bad is not None


def run(tier, seed, log):
    rep = Report(PROP, tier, seed)
    inputs = dict_cases(2 if tier == "quick" else 3) + matrix_cases(tier) + malformed_cases()
    ladder = ladder_cases(tier)
    if tier == "quick":
        # the complete product for the dict inputs with rows <= 2; link types T/O and Ds share the code
        # path of D/U, so the full 5 x 2 product is kept for every input
        pass
    cases = [(c, lt, pr) for c in inputs for lt in LTYPES for pr in PRIORS]
    cases += [(c, lt, "none") for c in ladder for lt in ("D", "U", "O")]
    res = engine_e.explore(cases, per_case, seed=seed, log=log, label="builder inputs")
    for fp, (n, rec) in res.viols.items():
        rep.add(fp, rec, n)
    kinds = collections.Counter(c[0][0] for c in cases)
    rep.coverage = {
        "states": res.cases,
        "transitions": res.cases,
        "traces_validated_against_impl": res.cases,
        "evaluations": res.evaluations,
        "distinct_nontrivial": res.nontrivial,
        "rule": "complete enumeration of builder inputs (see module docstring) x 5 link types x 2 prior structures; "
                "each case is one builder call on a freshly built pool, compared with the reference model of the "
                "documented construction and read back through neighbors()/find_links(); non-trivial = at least "
                "one pair / truthy cell, or malformed input",
        "exhaustive": True,
        "cases_by_kind": dict(kinds),
        "distinct_observed_outcomes": len(res.outcomes),
        "samples": [{"input": c[0], "linktype": c[1], "prior": c[2]} for c in res.samples],
    }
    rep.assumptions = ["inputs bounded: <=3 vertices, rows of length <=2 (thorough <=3), matrices <=3x3",
                       "read-back is checked for link types of the two edge families only (the statement gives "
                       "no read-back rule for other two-ended types) and without prior links"]
    return rep.finish(confirm=replay)
