"""
C03 -- every mutation has exactly its documented effect and no other.

Same state graphs as C01; every transition's (post-state, return value), read
through public accessors, must be one of the outcomes the relational reference
model (structure.model_step, DESIGN 3.3) allows for (pre-state, op).
"""

from edgegraph.structure import Vertex
from edgegraph.traversal import helpers

from .. import engine_h, oracles
from ..report import Report
from ..structure import (
    Alphabet, Pumped, SWorld, apply_op, canon_world, inv_links, inv_members, observe, shape,
    model_step, obs_match, UNSPEC,
)
from .c01 import PUMPED

PROP = "C03"

WARM_POOLS = {
    "quick": [dict(nv=2, maxl=2, maxar=2, classes=("D", "U"), link_ft_classes=("O",), bad=False)],
    "thorough": [dict(nv=2, maxl=2, maxar=3, classes=("D", "U"), link_ft_classes=("O",)),
                 dict(nv=3, maxl=2, maxar=2, classes=("D", "O"), bad=False)],
}
POOLS = {
    "quick": [
        dict(nv=2, maxl=2, maxar=3, classes=("D", "U"), link_ft_classes=("O",)),
        dict(nv=3, maxl=1, maxar=2, classes=("D", "O"), nu=1, membership=True, raw=False),
        dict(nv=3, maxl=1, maxar=2, classes=("D", "U"), bad=False, twin=True),     # last vertex: same uid as the first
    ],
    "thorough": [
        dict(nv=2, maxl=2, maxar=3, classes=("D", "U"), link_ft_classes=("O",)),
        dict(nv=3, maxl=2, maxar=2, classes=("D", "U"), link_ft_classes=("O",)),
        dict(nv=2, maxl=3, maxar=2, classes=("D", "O"), bad=False),
        dict(nv=2, maxl=2, maxar=2, classes=("D", "U"), nu=2, membership=True, bad=False),
        dict(nv=3, maxl=2, maxar=3, classes=("U",), bad=False),
    ],
}


# Warm-memo legs: the same transition again on a re-built pre-state with neighbour caching on and
# the memos of every vertex filled by one kind of query.  A mutation must not depend on what the
# neighbour cache happens to hold (the queries themselves are C05's business).
WARMS = {
    "forward": dict(direction_sensitive=oracles.FWD),
    "backward": dict(direction_sensitive=oracles.BWD),
    "any,unknown=nonneighbor": dict(direction_sensitive=oracles.ANY, unknown_handling=oracles.NON),
}


def warm_leg(system, hist, op, name):
    """(obs, observation) of `op` applied to build(hist) with warm memos of kind `name`."""
    w2 = engine_h.build(system, hist)
    w2.flag = True
    Vertex.NEIGHBOR_CACHING = True
    for v in w2.v:
        try:
            helpers.neighbors(v, **WARMS[name])
        except Exception:  # noqa: BLE001   (unknown link class under the default handling)
            pass
    obs2 = apply_op(w2, op)
    Vertex.NEIGHBOR_CACHING = False
    return obs2, observe(w2)


def _diff_kind(op, post, allowed, obs):
    """Which part of the observation departs from the (first) allowed outcome."""
    exp, ret = allowed[0]
    kinds = []
    if not any(obs_match(obs, r) for _, r in allowed):
        kinds.append("return")
    arg_v = {a for a in op[1:] if isinstance(a, int)}
    for i, (a, b) in enumerate(zip(post["vl"], exp["vl"])):
        if a != b:
            if sorted(a, key=repr) == sorted(b, key=repr):
                kinds.append("order-of-some-vertex-links")
            else:
                kinds.append("links-of-some-vertex")
    if len(post["lv"]) != len(exp["lv"]):
        kinds.append("number-of-links")
    else:
        for a, b in zip(post["lv"], exp["lv"]):
            if a != b:
                kinds.append("ends-of-some-link")
    if post["cl"] != exp["cl"]:
        kinds.append("link-class")
    if post["xu"] != exp["xu"] or post["um"] != exp["um"]:
        kinds.append("membership")
    return "+".join(sorted(set(kinds))) or "other"


def judge(pre_obs, op, post_obs, obs):
    """Returns None (conforms / unspecified) or a diff-kind string."""
    m = model_step(pre_obs, op)
    if m is UNSPEC:
        return None
    for exp, ret in m:
        if obs_match(obs, ret) and exp == post_obs:
            return None
    return _diff_kind(op, post_obs, m, obs)


class System:
    def __init__(self, alpha, warm=False):
        self.alpha = alpha
        self.unspec = 0
        self.warm = warm
        self.current_history = ()

    def initial(self):
        if isinstance(self.alpha, Pumped):
            return self.alpha.initial()
        return SWorld(self.alpha.nv, self.alpha.nu, twin=getattr(self.alpha, "twin", False))

    def ops(self, w):
        return self.alpha.ops(w)

    def apply(self, w, op):
        return apply_op(w, op)

    def canon(self, w):
        return canon_world(w)

    def within_bounds(self, w):
        if not self.alpha.within_bounds(w):
            return False
        # assume/guarantee: a state that breaks C01/C02's invariants is theirs to report
        return True

    def check(self, pre, op, post, obs):
        pre_o = observe(pre)
        post_o = observe(post)
        kind = judge(pre_o, op, post_o, obs)
        if kind is None:
            if self.warm and model_step(pre_o, op) is not UNSPEC:
                for name in WARMS:
                    obs2, post2 = warm_leg(self, self.current_history, op, name)
                    if obs2 != obs or post2 != post_o:
                        what = "return" if obs2 != obs else "post-state"
                        return [(f"{shape(pre_o, op)}|{obs[0]}|with-warm-neighbour-memos({name})|{what}-differs-from-cold",
                                 {"op": list(op), "obs": obs, "pre": pre_o, "post": post_o, "warm": name,
                                  "warm_obs": obs2, "warm_post": post2})]
            return []
        if inv_links(post) or inv_members(post):
            kind += "|asymmetric-post-state"
        fp = f"{shape(pre_o, op)}|{obs[0]}|{kind}"
        exp = model_step(pre_o, op)
        return [(fp, {"op": list(op), "obs": obs, "pre": pre_o, "post": post_o,
                      "allowed": [{"post": e, "ret": r} for e, r in exp][:2]})]

    def prune(self, pre, op, post, obs):
        # assume/guarantee: a state that breaks C01/C02's invariants (reachable here only
        # through an unspecified call) is theirs to report; it is counted, not expanded
        return bool(inv_links(post) or inv_members(post))

    def nontrivial(self, pre, op, post, obs):
        return model_step(observe(pre), op) is not UNSPEC and any(v.links for v in pre.v)


def replay(rec, verbose=False):
    if "pumped_star" in rec["pool"]:
        pl = rec["pool"]
        alpha = Pumped(pl["pumped_star"], pl["extra_links"], pl["cls"], pl["maxar"], pl["none_ends"],
                       pl.get("mini", False))
        w = alpha.initial()
    else:
        alpha = Alphabet(**rec["pool"])
        w = SWorld(alpha.nv, alpha.nu, twin=getattr(alpha, "twin", False))
    hist = [tuple(op) for op in rec["history"]]
    for op in hist[:-1]:
        apply_op(w, op)
    pre_o = observe(w)
    obs = apply_op(w, hist[-1])
    post_o = observe(w)
    kind = judge(pre_o, hist[-1], post_o, obs)
    warm = rec.get("detail", {}).get("warm") if isinstance(rec.get("detail"), dict) else None
    warm = warm or rec.get("warm")
    if warm:
        obs2, post2 = warm_leg(System(alpha), hist[:-1], hist[-1], warm)
        if verbose:
            print("  history:", hist)
            print(f"  cold: {hist[-1]} -> {obs}  post {post_o}")
            print(f"  with neighbour caching on and {warm} memos warm: -> {obs2}  post {post2}")
        return obs2 != obs or post2 != post_o
    if verbose:
        print("  history:", hist)
        print("  pre :", pre_o)
        print("  call:", hist[-1], "->", obs)
        print("  post:", post_o)
        m = model_step(pre_o, hist[-1])
        print("  allowed:", m if m is UNSPEC else [(e, r) for e, r in m][:2])
        print("  verdict:", kind)
    return kind is not None


def run(tier, seed, log):
    rep = Report(PROP, tier, seed)
    tot = dict(states=0, transitions=0, validated=0, nontrivial=0, outcomes=0)
    pools_ev, samples = [], []
    exhaustive = True
    for spec, warm in [(s, False) for s in POOLS[tier]] + [(s, True) for s in WARM_POOLS[tier]]:
        alpha = Alphabet(**spec)
        log(f"[{PROP}] pool {spec}" + (" + warm-memo legs" if warm else ""))
        res = engine_h.explore(System(alpha, warm=warm), seed=seed, log=log)
        for fp, (n, rec) in res.viols.items():
            rec = dict(rec)
            rec["pool"] = spec
            rep.add(fp, rec, n)
        spec = dict(spec, warm_memo_legs=True) if warm else spec
        tot["states"] += res.states
        tot["transitions"] += res.transitions
        tot["validated"] += res.validated
        tot["nontrivial"] += res.nontrivial
        tot["outcomes"] += len(res.outcomes)
        exhaustive = exhaustive and res.exhaustive
        pools_ev.append({
            "pool": spec, "states": res.states, "transitions": res.transitions,
            "specified_transitions_with_links": res.nontrivial,
            "pruned_asymmetric_successors": res.pruned,
            "max_depth": res.depth, "fixpoint": res.exhaustive, "cap_hit": res.cap,
            "wall_s": round(res.wall, 1),
        })
        samples += [{"pool": spec, "history": h} for h in res.sample_histories[-3:]]
    pump = PUMPED[tier]
    pstates = ptrans = 0
    for n, mini, depth in ([(n, False, pump["depth"]) for n in pump["ns"]] +
                           ([(n, True, pump["mini_depth"]) for n in pump["ns"]] if tier != "quick" else [])):
        alpha = Pumped(n, mini=mini)
        res = engine_h.explore(System(alpha), seed=seed, max_depth=depth)
        for fp, (cnt, rec) in res.viols.items():
            rec = dict(rec)
            rec["pool"] = alpha.describe()
            rep.add("pumped|" + fp, rec, cnt)
        pstates += res.states
        ptrans += res.transitions
        tot["states"] += res.states
        tot["transitions"] += res.transitions
        tot["validated"] += res.validated
        tot["nontrivial"] += res.nontrivial
    log(f"[{PROP}] pumped stars n={pump['ns']} depth<={pump['depth']}: states={pstates} transitions={ptrans}")
    pools_ev.append({"pool": "pumped stars (hub with n links; every history of <= depth focused ops from there)",
                     "hub_degrees": pump["ns"], "depth": pump["depth"], "narrow_alphabet_depth": pump["mini_depth"],
                     "states": pstates,
                     "transitions": ptrans, "fixpoint": False})
    rep.coverage = {
        "states": tot["states"],
        "transitions": tot["transitions"],
        "traces_validated_against_impl": tot["validated"],
        "evaluations": tot["transitions"],
        "distinct_nontrivial": tot["nontrivial"],
        "rule": "every (state, op) pair over each pool, BFS to fixpoint; the observed (post-state, "
                "return) must be in allowed(pre, op) of the reference model; non-trivial = the model "
                "specifies the call (not an 'unspecified' call on a degenerate link) and the pre-state "
                "holds an attached link",
        "exhaustive": exhaustive,
        "fixpoint": exhaustive,
        "pools": pools_ev,
        "distinct_observed_outcomes": tot["outcomes"],
        "samples": samples,
    }
    rep.assumptions = [
        "bounded pools; histories of every length over each pool",
        "warm-memo legs (separate pools, marked warm_memo_legs): every "
        "specified transition is repeated on a re-built pre-state with caching on and forward / backward / "
        "any-direction memos warm, and must give the same return value and post-state",
        "reference model slack (DESIGN 3.3): own-list position of a link on re-assignment of an end the "
        "vertex already/still occupies; calls on links with other than two ends are unspecified",
        "removing a non-member may raise any exception type",
    ]
    return rep.finish(confirm=replay)
