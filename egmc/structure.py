"""
The structure world: a pool of real vertices / links / universes, the structure
alphabet of DESIGN.md section 3.1 as an op interpreter on the real API, the
public-accessor observation, the C01/C02 invariants and the relational
reference model of section 3.3 (C03).
"""

import copy

from edgegraph.structure import (
    Vertex, Universe, Link, TwoEndedLink, DirectedEdge, UnDirectedEdge,
)
from edgegraph.builder import explicit

from . import canon as _canon
from .engine_h import SKIP
from . import fixtures_mod as fx

LINK_CLASSES = {
    "D": DirectedEdge,
    "U": UnDirectedEdge,
    "T": TwoEndedLink,
    "Ds": fx.SubDirected,
    "Us": fx.SubUndirected,
    "O": fx.OtherTwoEnded,
}


def reset_globals():
    """Called whenever a fresh world is built.  Does NOT clear Vertex._CACHE_STATS: several worlds
    may be alive at once (pre-state, twin, copy) and clearing would silently un-register the
    vertices of the others.  The engines call new_item() between independent work items."""
    Vertex.NEIGHBOR_CACHING = False


_PRISTINE = {}
_CLASS_NAMES = {}


_CLASSES = []


def _library_classes():
    import sys
    if _CLASSES:
        return _CLASSES
    out = _CLASSES
    for name, mod in list(sys.modules.items()):
        if name.startswith("edgegraph.structure.") and mod is not None:
            for obj in vars(mod).values():
                if isinstance(obj, type) and obj.__module__ == name and obj not in out:
                    out.append(obj)
    return out


_MODULE_PRISTINE = {}
_MEMO_ATTRS = None
_SCALARS = (type(None), bool, int, float, str, bytes)


def memo_attrs():
    """
    Names of the per-vertex attributes that neighbour caching writes to, discovered by experiment
    (no private name is hard-wired): build a tiny graph, query it with caching on, and see which
    entries of vars(vertex) appear or change.
    """
    global _MEMO_ATTRS
    if _MEMO_ATTRS is None:
        from edgegraph.traversal import helpers as _h
        saved = Vertex.NEIGHBOR_CACHING
        try:
            a, b = Vertex(), Vertex()
            DirectedEdge(a, b)
            before = {k: repr(v) for k, v in vars(a).items()}
            Vertex.NEIGHBOR_CACHING = True
            _h.neighbors(a)
            _h.neighbors(a, _h.DIR_SENS_ANY, _h.LNK_UNKNOWN_NEIGHBOR)
            after = {k: repr(v) for k, v in vars(a).items()}
            _MEMO_ATTRS = tuple(sorted(k for k in after if before.get(k) != after[k]))
        finally:
            Vertex.NEIGHBOR_CACHING = saved
    return _MEMO_ATTRS


def memo_is_warm(v):
    return any(vars(v).get(k) for k in memo_attrs())


def stats_tables():
    """class-level dicts of Vertex that are keyed by uids (the cache statistics table, under any name)"""
    out = []
    for name, val in vars(Vertex).items():
        if isinstance(val, dict) and not (name.startswith("__") and name.endswith("__")):
            out.append((name, val))
    return out


def is_registered(x):
    """does some class-level table of Vertex hold an entry for this vertex's uid?"""
    u = x.uid
    return any(u in t for _, t in stats_tables())


def _library_module_globals():
    """(module, name, value) for every module-level dict / list / set of the edgegraph package"""
    import sys
    out = []
    for name, mod in list(sys.modules.items()):
        if (name == "edgegraph" or name.startswith("edgegraph.")) and mod is not None:
            for gname, val in list(vars(mod).items()):
                if gname.startswith("__"):
                    continue
                if isinstance(val, (dict, list, set)):
                    out.append((mod, gname, val))
    return out


def _restore(val, pristine):
    if isinstance(val, dict):
        val.clear()
        val.update(pristine)
    elif isinstance(val, list):
        val[:] = pristine
    else:
        val.clear()
        val.update(pristine)


def new_item():
    """
    Between independent work items (no world of the previous item is used any more): bring every
    class-level mutable container of the structure classes (Vertex._CACHE_STATS, and any other
    dict / list / set a class body defines) and every module-level dict / list / set of the
    edgegraph package (e.g. plantuml's default option table, which the renderer edits in place)
    back to its content at first sight, in place.  This owns the library's global state, so that
    executions are independent of what a long-lived worker ran before and every reported case
    replays from a fresh process.  (The singleton registries are handled by the C17/C18 worlds.)
    """
    import copy as _copy
    Vertex.NEIGHBOR_CACHING = False
    for cls in _library_classes():
        if cls.__module__.endswith(".singleton"):
            continue
        for name, val in list(vars(cls).items()):
            if name.startswith("__") and name.endswith("__"):
                continue
            if isinstance(val, _SCALARS) and name != "NEIGHBOR_CACHING":
                # a class-level flag / counter / marker (None, bool, int, str, ...): back to its first-seen value
                key = (cls, name)
                if key not in _PRISTINE:
                    _PRISTINE[key] = val
                elif val is not _PRISTINE[key] and val != _PRISTINE[key] or type(val) is not type(_PRISTINE[key]):
                    setattr(cls, name, _PRISTINE[key])
                continue
            if isinstance(val, (dict, list, set)):
                key = (cls, name)
                if key not in _PRISTINE:
                    # first sight: the table that maps uids to statistics starts empty; anything else
                    # is taken as it is now (first call happens before any world is built)
                    # tables keyed by uid (the cache statistics) start empty; anything else is taken
                    # as it is now (the first call happens before any world is built)
                    _PRISTINE[key] = type(val)() if (cls is Vertex and isinstance(val, dict)) else _copy.copy(val)
                _restore(val, _PRISTINE[key])
    for cls in _library_classes():
        if cls.__module__.endswith(".singleton"):
            continue
        seen = _CLASS_NAMES.setdefault(cls, set(vars(cls)))
        for name in list(vars(cls)):
            if name not in seen and not (name.startswith("__") and name.endswith("__")):
                try:
                    delattr(cls, name)        # an attribute some earlier execution planted on the class
                except Exception:  # noqa: BLE001
                    pass
    for mod, gname, val in _library_module_globals():
        key = (mod.__name__, gname)
        if key not in _MODULE_PRISTINE:
            try:
                _MODULE_PRISTINE[key] = _copy.deepcopy(val)
            except Exception:  # noqa: BLE001 - not copyable: leave it alone
                _MODULE_PRISTINE[key] = None
        if _MODULE_PRISTINE[key] is not None:
            _restore(val, _copy.deepcopy(_MODULE_PRISTINE[key]))


class SWorld:
    """Pool of real objects.  Objects are named by their index in these lists."""

    def __init__(self, nv, nu=0, vclasses=None, twin=False):
        reset_globals()
        self.v = []
        for i in range(nv):
            cls = Vertex if not vclasses else vclasses[i]
            self.v.append(cls(attributes={"i": i}))
        if twin and nv >= 2:
            # the last vertex is a TWIN of the first: a distinct object that carries the same uid -- what a
            # pickle round trip (or deepcopy) of a vertex gives; a library that tells vertices apart by
            # uid / equality instead of identity confuses the two
            import pickle as _pickle
            t = _pickle.loads(_pickle.dumps(self.v[0]))
            t.i = nv - 1
            self.v[-1] = t
        self.u = [Universe(attributes={"i": 100 + k}) for k in range(nu)]
        self.l = []
        self.flag = False

    # index <-> object ------------------------------------------------------
    def V(self, i):
        return None if i is None else self.v[i]

    def M(self, i):
        """member pool: vertices first, then universes"""
        return self.v[i] if i < len(self.v) else self.u[i - len(self.v)]

    def vid(self, x):
        if x is None:
            return None
        for i, v in enumerate(self.v):
            if v is x:
                return i
        for k, u in enumerate(self.u):
            if u is x:
                return len(self.v) + k
        return "?"

    def lid(self, x):
        for i, l in enumerate(self.l):
            if l is x:
                return i
        return "?"

    def uid_(self, x):
        for k, u in enumerate(self.u):
            if u is x:
                return k
        return "?"

    def roots(self):
        return self.v + self.l + self.u


def class_level_state():
    """mutable containers defined at class level in the structure classes (other than the uid ->
    statistics table, which is represented by the per-vertex 'registered' bit)"""
    out = []
    for cls in _library_classes():
        if cls.__module__.endswith(".singleton"):
            continue
        for name, val in sorted(vars(cls).items()):
            if name.startswith("__") and name.endswith("__"):
                continue
            if cls is Vertex and isinstance(val, dict) and all(isinstance(k, int) for k in val):
                continue          # uid-keyed statistics table(s): represented by the 'registered' bit
            if isinstance(val, (dict, list, set)):
                out.append((cls.__name__, name, val))
            elif isinstance(val, _SCALARS) and name != "NEIGHBOR_CACHING":
                out.append((cls.__name__, name, val))      # flags / counters / markers are state as well
    return out


def canon_world(w, skip_attrs=()):
    cls_state = class_level_state()
    # the public observation is part of the form as well: whatever private representation the library
    # uses (one this walk might not see into), two worlds that look different through the public
    # accessors are different states, so a representation change can never collapse the exploration
    try:
        o = observe(w)
        public = tuple((k, repr(o[k])) for k in sorted(o))
    except Exception as e:  # noqa: BLE001
        public = ("observation-raised", type(e).__name__)
    return (
        bool(w.flag),
        tuple((c, n) for c, n, _ in cls_state),
        _canon.canon_graph(
            w.roots() + [v for _, _, v in cls_state],
            uid="drop",
            skip_attrs=skip_attrs,
            registered=is_registered,
        ),
        public,
    )


# --------------------------------------------------------------------------
# observation through public accessors only

def observe(w):
    vl = [[w.lid(l) for l in v.links] for v in w.v]
    lv = [[w.vid(x) for x in l.vertices] for l in w.l]
    cl = [type(l).__name__ for l in w.l]
    members = w.v + w.u
    xu = [[w.uid_(u) for u in x.universes] for x in members]
    um = [[w.vid(x) for x in u.vertices] for u in w.u]
    return {"vl": vl, "lv": lv, "cl": cl, "xu": xu, "um": um}


# --------------------------------------------------------------------------
# invariants

def inv_links(w):
    """C01: l in v.links <=> v in l.vertices (identity); no duplicate in v.links."""
    bad = []
    for i, v in enumerate(w.v):
        ls = v.links
        if len({id(l) for l in ls}) != len(ls):
            bad.append(("dup", i))
        for l in ls:
            if not any(x is v for x in l.vertices):
                bad.append(("v-only", i, w.lid(l)))
            if w.lid(l) == "?":
                pass
    for k, l in enumerate(w.l):
        for x in l.vertices:
            if x is not None and not any(m is l for m in x.links):
                bad.append(("l-only", k, w.vid(x)))
    return bad


def inv_members(w):
    """C02: x in U.vertices <=> U in x.universes; no duplicates on either side."""
    bad = []
    members = w.v + w.u
    for k, u in enumerate(w.u):
        vs = u.vertices
        if len({id(x) for x in vs}) != len(vs):
            bad.append(("u-dup", k))
        for x in vs:
            if not any(y is u for y in x.universes):
                bad.append(("u-only", k, w.vid(x)))
    for i, x in enumerate(members):
        us = x.universes
        if len({id(y) for y in us}) != len(us):
            bad.append(("x-dup", i))
        for y in us:
            if not any(m is x for m in y.vertices):
                bad.append(("x-only", i, w.uid_(y)))
    return bad


# --------------------------------------------------------------------------
# alphabet

class Alphabet:
    """
    nv, nu        pool sizes
    classes       link class keys creatable by `new`
    maxl, maxar   at most maxl links are ever created; link arity <= maxar
    raw           include add_to_link / remove_from_link / add_vertex / unlink_from
    none_ends     allow None as an end
    explicit      include explicit.link_* / unlink
    bad           include ill-typed constructor calls
    membership    include universe membership ops (needs nu > 0)
    """

    def __init__(self, nv, maxl, maxar=2, classes=("D", "U"), raw=True, none_ends=True,
                 explicit_ops=True, bad=True, nu=0, membership=False, setters=True,
                 link_ft_classes=(), twin=False):
        self.twin = twin          # the last vertex of the pool is a twin of the first (same uid, distinct object)
        self.nv, self.maxl, self.maxar = nv, maxl, maxar
        self.classes = tuple(classes)
        self.raw, self.none_ends, self.explicit = raw, none_ends, explicit_ops
        self.bad, self.nu, self.membership = bad, nu, membership
        self.setters = setters
        self.link_ft_classes = tuple(link_ft_classes)

    def describe(self):
        return dict(vars(self))

    def ops(self, w):
        nv = self.nv
        E = ([None] if self.none_ends else []) + list(range(nv))
        nl = len(w.l)
        out = []
        if nl < self.maxl:
            for c in self.classes:
                for i in range(nv):
                    for j in range(nv):
                        if i != j:
                            out.append(("new", c, i, j))
            for c in self.classes:
                for i in E:
                    for j in E:
                        if i is None or j is None or i == j:
                            out.append(("new", c, i, j))
            if self.bad:
                for c in self.classes[:1]:
                    out.append(("new_bad", c, "v1"))
                    out.append(("new_bad", c, "v2"))
                    out.append(("new_bad", c, "attributes"))
                    # junk whose truth value is False (a guard written `if end and ...` lets it through)
                    out.append(("new_bad", c, "v2-zero"))
                    out.append(("new_bad", c, "v1-zero"))
                    out.append(("new_bad", c, "v2-empty-string"))
        if self.explicit:
            for i in range(nv):
                for j in range(nv):
                    for dd in (False, True):
                        if nl < self.maxl or dd:
                            out.append(("link_d", i, j, dd))
                            out.append(("link_u", i, j, dd))
                            for c in self.link_ft_classes:
                                out.append(("link_ft", c, i, j, dd))
        if self.setters:
            for k in range(nl):
                for x in E:
                    out.append(("set_v1", k, x))
                    out.append(("set_v2", k, x))
        if self.explicit:
            for i in range(nv):
                for j in range(nv):
                    out.append(("unlink", i, j, True))
                    out.append(("unlink", i, j, False))
        if self.raw:
            for k in range(nl):
                for i in range(nv):
                    out.append(("a2l", i, k))
                    out.append(("rfl", i, k))
                for x in E:
                    out.append(("addv", k, x))
                    out.append(("ulf", k, x))
        if self.membership:
            nm = nv + self.nu
            for k in range(self.nu):
                for x in range(nm):
                    out.append(("uadd", k, x))
                    out.append(("urem", k, x))
                    out.append(("a2u", x, k))
                    out.append(("rfu", x, k))
        return out

    def within_bounds(self, w):
        if len(w.l) > self.maxl:
            return False
        for l in w.l:
            if len(l.vertices) > self.maxar:
                return False
        return True


def apply_op(w, op):
    """Execute one op on the real objects.  Returns ("ret", value) or ("exc", name)."""
    k = op[0]
    Vertex.NEIGHBOR_CACHING = w.flag
    try:
        if k == "new":
            e = LINK_CLASSES[op[1]](w.V(op[2]), w.V(op[3]))
            w.l.append(e)
            return ("ret", len(w.l) - 1)
        if k == "new_bad":
            cls = LINK_CLASSES[op[1]]
            a = w.v[0]
            if op[2] == "v1":
                cls("not a vertex", a)
            elif op[2] == "v2":
                cls(a, 17)
            elif op[2] == "v2-zero":
                cls(a, 0)
            elif op[2] == "v1-zero":
                cls(0, a)
            elif op[2] == "v2-empty-string":
                cls(a, "")
            else:
                cls(a, a, attributes=[("x", 1)])
            return ("ret", "no-exception")
        if k in ("link_d", "link_u", "link_ft"):
            if k == "link_d":
                r = explicit.link_directed(w.v[op[1]], w.v[op[2]], dontdup=op[3])
            elif k == "link_u":
                r = explicit.link_undirected(w.v[op[1]], w.v[op[2]], dontdup=op[3])
            else:
                r = explicit.link_from_to(
                    w.v[op[2]], LINK_CLASSES[op[1]], w.v[op[3]], dontdup=op[4]
                )
            if w.lid(r) == "?":
                w.l.append(r)
            return ("ret", w.lid(r))
        if k == "set_v1":
            w.l[op[1]].v1 = w.V(op[2])
            return ("ret", None)
        if k == "set_v2":
            w.l[op[1]].v2 = w.V(op[2])
            return ("ret", None)
        if k == "unlink":
            r = explicit.unlink(w.v[op[1]], w.v[op[2]], destroy=op[3])
            if r is None:
                return ("ret", None)
            return ("ret", sorted(w.lid(x) for x in r))
        if k == "a2l":
            r = w.v[op[1]].add_to_link(w.l[op[2]])
        elif k == "rfl":
            r = w.v[op[1]].remove_from_link(w.l[op[2]])
        elif k == "addv":
            r = w.l[op[1]].add_vertex(w.V(op[2]))
        elif k == "ulf":
            r = w.l[op[1]].unlink_from(w.V(op[2]))
        elif k == "uadd":
            r = w.u[op[1]].add_vertex(w.M(op[2]))
        elif k == "urem":
            r = w.u[op[1]].remove_vertex(w.M(op[2]))
        elif k == "a2u":
            r = w.M(op[1]).add_to_universe(w.u[op[2]])
        elif k == "rfu":
            r = w.M(op[1]).remove_from_universe(w.u[op[2]])
        else:
            return SKIP
        return ("ret", None if r is None else repr(r))
    except Exception as e:  # noqa: BLE001 - the exception class is the observation
        return ("exc", type(e).__name__)


# --------------------------------------------------------------------------
# aliasing shape of an op's arguments in the pre-state (for fingerprints)

def shape(pre, op):
    """pre = observe(world before).  Describes the aliasing pattern, not the names."""
    k = op[0]
    lv = pre["lv"]

    def pattern(ends, extra=()):
        names = {}
        s = ""
        for e in ends:
            if e is None:
                s += "_"
            else:
                names.setdefault(e, chr(ord("A") + len(names)))
                s += names[e]
        xs = ""
        for x in extra:
            if x is None:
                xs += "_"
            elif x in names:
                xs += names[x]
            else:
                xs += "N"
        return s, xs

    if k in ("set_v1", "set_v2", "addv", "ulf"):
        s, xs = pattern(lv[op[1]], (op[2],))
        return f"{k}|ends={s}|arg={xs}"
    if k in ("a2l", "rfl"):
        s, xs = pattern(lv[op[2]], (op[1],))
        return f"{k}|ends={s}|arg={xs}"
    if k == "new":
        s, _ = pattern((op[2], op[3]))
        return f"new|ends={s}"
    if k in ("link_d", "link_u"):
        return f"{k}|{'a=b' if op[1] == op[2] else 'a!=b'}|dontdup={op[3]}"
    if k == "link_ft":
        return f"{k}|{'a=b' if op[2] == op[3] else 'a!=b'}|dontdup={op[4]}"
    if k == "unlink":
        return f"unlink|{'a=b' if op[1] == op[2] else 'a!=b'}|destroy={op[3]}"
    return k


# --------------------------------------------------------------------------
# relational reference model (DESIGN 3.3).  Works on plain lists of small ints.

UNSPEC = "UNSPEC"


def _other(lv, l, a):
    p, q = lv[l]
    if p == a:
        return q
    if q == a:
        return p
    return "none"


def model_step(pre, op):
    """
    pre: observation dict.  Returns UNSPEC or a list of allowed
    (post_observation, return_observation) pairs.
    """
    st = copy.deepcopy(pre)
    vl, lv, cl, xu, um = st["vl"], st["lv"], st["cl"], st["xu"], st["um"]
    k = op[0]
    nv = len(vl)

    def attach(l, x):
        if x is not None and l not in vl[x]:
            vl[x].append(l)

    def mk_new(cname, a, b):
        l = len(lv)
        lv.append([a, b])
        cl.append(cname)
        attach(l, a)
        attach(l, b)
        return [(st, ("ret", l))]

    if k == "new":
        return mk_new(LINK_CLASSES[op[1]].__name__, op[2], op[3])
    if k == "new_bad":
        return [(st, ("exc", "TypeError"))]
    if k in ("link_d", "link_u", "link_ft"):
        if k == "link_ft":
            cname, a, b, dd = LINK_CLASSES[op[1]].__name__, op[2], op[3], op[4]
        else:
            cname = "DirectedEdge" if k == "link_d" else "UnDirectedEdge"
            a, b, dd = op[1], op[2], op[3]
        if dd:
            # the scan looks at a's links in order; a degenerate link met before a
            # match makes the call unspecified
            for l in vl[a]:
                if len(lv[l]) != 2:
                    return UNSPEC
                if _other(lv, l, a) == b:
                    return [(st, ("ret", l))]
        return mk_new(cname, a, b)
    if k in ("set_v1", "set_v2"):
        l, x = op[1], op[2]
        idx = 0 if k == "set_v1" else 1
        if len(lv[l]) != 2:
            return UNSPEC
        old = lv[l][idx]
        lv[l][idx] = x
        if old is not None and old not in lv[l]:
            if l in vl[old]:
                vl[old].remove(l)
        outs = [st]
        if x is not None:
            if l not in vl[x]:
                vl[x].append(l)
            else:
                alt = copy.deepcopy(st)
                alt["vl"][x].remove(l)
                alt["vl"][x].append(l)
                outs.append(alt)
        # an old end that is still an end (the link was a self-loop) is, by the statement, NOT detached:
        # its own list, like everybody else's, stays exactly as it was -- no slack here
        return [(o, ("ret", None)) for o in outs]
    if k == "unlink":
        a, b, d = op[1], op[2], op[3]
        if any(len(lv[l]) != 2 for l in vl[a]):
            return UNSPEC
        J = [l for l in vl[a] if _other(lv, l, a) == b]
        for l in J:
            vl[a].remove(l)
            if b != a and l in vl[b]:
                vl[b].remove(l)
            lv[l] = []
        return [(st, ("ret", None if d else sorted(J)))]
    if k == "a2l":
        v, l = op[1], op[2]
        if l not in vl[v]:
            vl[v].append(l)
            if v not in lv[l]:
                lv[l].append(v)
        return [(st, ("ret", None))]
    if k == "addv":
        l, x = op[1], op[2]
        lv[l].append(x)
        attach(l, x)
        return [(st, ("ret", None))]
    if k == "rfl":
        v, l = op[1], op[2]
        if l in vl[v]:
            vl[v].remove(l)
            lv[l] = [y for y in lv[l] if y != v]
        return [(st, ("ret", None))]
    if k == "ulf":
        l, x = op[1], op[2]
        if x is None:
            return UNSPEC
        if x in lv[l]:
            lv[l] = [y for y in lv[l] if y != x]
            if l in vl[x]:
                vl[x].remove(l)
        return [(st, ("ret", None))]
    if k in ("uadd", "a2u"):
        u, x = (op[1], op[2]) if k == "uadd" else (op[2], op[1])
        if x not in um[u]:
            um[u].append(x)
        if u not in xu[x]:
            xu[x].append(u)
        return [(st, ("ret", None))]
    if k in ("urem", "rfu"):
        u, x = (op[1], op[2]) if k == "urem" else (op[2], op[1])
        if x not in um[u]:
            return [(st, ("exc", "*"))]
        um[u].remove(x)
        xu[x].remove(u)
        return [(st, ("ret", None))]
    return UNSPEC


def obs_match(obs, allowed_ret):
    if allowed_ret == ("exc", "*"):
        return obs[0] == "exc"
    return tuple(obs) == tuple(allowed_ret) or list(obs) == list(allowed_ret)


# --------------------------------------------------------------------------
# "pumped" pools: start from a large state (a hub with n links) and explore every short history of a
# focused alphabet from there -- the complement of the small-scope pools for behaviour that depends
# on a size threshold (an index that is only built for vertices with many links, a cache with a
# capacity, ...).

class Pumped:
    """
    hub = v0, spokes v1..vn (one link hub->spoke each, built through the public constructor),
    two further vertices: late = v(n+1), elsewhere = v(n+2).
    Focus: ops of every kind, but only on the hub, the last spoke, late, elsewhere and on the first /
    last / newly created links.
    """

    def __init__(self, n, extra_links=2, cls="D", maxar=3, none_ends=False, mini=False):
        self.mini = mini      # narrower alphabet (hub / late / elsewhere; first and newest link) for deeper runs
        self.n = n
        self.nv = n + 3
        self.nu = 0
        self.cls = cls
        self.maxl = n + extra_links
        self.maxar = maxar
        self.none_ends = none_ends

    def describe(self):
        return {"pumped_star": self.n, "extra_links": self.maxl - self.n, "cls": self.cls,
                "maxar": self.maxar, "none_ends": self.none_ends, "mini": self.mini}

    def initial(self):
        w = SWorld(self.nv)
        for k in range(1, self.n + 1):
            w.l.append(LINK_CLASSES[self.cls](w.v[0], w.v[k]))
        return w

    def focus_vertices(self):
        n = self.n
        return sorted({0, n + 1, n + 2} | ({n} if n >= 1 else set()))

    def focus_links(self, w):
        n = self.n
        ls = set(range(n, len(w.l)))
        if n >= 1:
            ls |= {0, n - 1}
        return sorted(ls)

    def ops(self, w):
        if self.mini:
            return self._mini_ops(w)
        F = self.focus_vertices()
        E = ([None] if self.none_ends else []) + F
        L = self.focus_links(w)
        out = []
        if len(w.l) < self.maxl:
            for i in F:
                for j in F:
                    out.append(("new", self.cls, i, j))
        for i in F:
            for j in F:
                if len(w.l) < self.maxl:
                    out.append(("link_d", i, j, False))
                out.append(("link_d", i, j, True))
        for k in L:
            for x in E:
                out.append(("set_v1", k, x))
                out.append(("set_v2", k, x))
        for i in F:
            for j in F:
                out.append(("unlink", i, j, False))
        for k in L:
            for i in F:
                out.append(("a2l", i, k))
                out.append(("rfl", i, k))
                out.append(("addv", k, i))
                out.append(("ulf", k, i))
        return out

    def _mini_ops(self, w):
        n = self.n
        hub, late, other = 0, n + 1, n + 2
        L = sorted(({0} if n else set()) | set(range(n, len(w.l))))
        out = []
        if len(w.l) < self.maxl:
            out += [("new", self.cls, hub, late), ("new", self.cls, late, hub), ("new", self.cls, hub, hub)]
        for k in L:
            for x in (hub, late, other):
                out.append(("set_v1", k, x))
                out.append(("set_v2", k, x))
            for v in (hub, late):
                out.append(("a2l", v, k))
                out.append(("rfl", v, k))
            out.append(("ulf", k, hub))
        out.append(("unlink", hub, late, False))
        return out

    def within_bounds(self, w):
        if len(w.l) > self.maxl:
            return False
        return all(len(l.vertices) <= self.maxar for l in w.l)
