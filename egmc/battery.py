"""
The query battery: every neighbour key for every vertex, the three traversals
and the three searches from every start, answers canonicalised to pool indices.
Used by C05 (cached vs uncached), C10 (copy vs original) and C12 (twin worlds).
"""

import copy

from edgegraph.structure import Vertex
from edgegraph.traversal import helpers, breadthfirst, depthfirst

from .fixtures_mod import NB_FILTERS, DIRS, UNKS

# the selective filter looks at the *vertex* label, which every pool vertex carries, so the two
# filters really give different answers (a key that forgets the filter is then visible); NON vs NBR
# differ on links of unknown type
KEYS_QUICK = [(d, u, f) for d in ("FWD", "ANY", "BWD") for (u, f) in (("NBR", "none"), ("NBR", "selv"), ("NON", "none"))]
# two filters that are distinct objects with the same code and different defaults (FORWARD only)
KEYS_QUICK += [("FWD", "NBR", "seld0"), ("FWD", "NBR", "seld1")]
KEYS_FULL = [(d, u, f) for d in ("FWD", "ANY", "BWD") for u in ("NON", "NBR", "ERR")
             for f in ("none", "accept", "selv", "sell")]

TRAV = {
    "bft": breadthfirst.bft, "dft_recursive": depthfirst.dft_recursive, "dft_iterative": depthfirst.dft_iterative,
}
SEARCH = {
    "bfs": breadthfirst.bfs, "dfs_recursive": depthfirst.dfs_recursive, "dfs_iterative": depthfirst.dfs_iterative,
}


def _ix(w, x):
    if x is None:
        return None
    return w.vid(x)


def _call(fn, *a, **k):
    try:
        return ("ret", fn(*a, **k))
    except RecursionError:
        return ("exc", "RecursionError")
    except Exception as e:  # noqa: BLE001
        return ("exc", type(e).__name__)


def neighbor_answers(w, keys):
    out = {}
    for i, v in enumerate(w.v):
        for (d, u, f) in keys:
            r = _call(helpers.neighbors, v, DIRS[d], UNKS[u], NB_FILTERS[f])
            if r[0] == "ret":
                r = ("ret", [_ix(w, x) for x in r[1]] if isinstance(r[1], list) else repr(type(r[1])))
            out[("nb", i, d, u, f)] = r
    return out


TRAV_KW = dict(direction_sensitive=helpers.DIR_SENS_FORWARD, unknown_handling=helpers.LNK_UNKNOWN_NEIGHBOR)


def traversal_answers(w, universes=(None,), trav_kw=None, first_index=0):
    out = {}
    kw = trav_kw or TRAV_KW
    for un, uni in enumerate(universes, first_index):
        for i, v in enumerate(w.v):
            if uni is not None and not any(v is m for m in uni.vertices):
                continue
            for name, fn in TRAV.items():
                r = _call(fn, uni, v, **kw)
                if r[0] == "ret":
                    r = ("ret", [_ix(w, x) for x in r[1]])
                out[(name, un, i)] = r
            for name, fn in SEARCH.items():
                for val in (0, len(w.v) - 1, 99):
                    r = _call(fn, uni, v, "i", val)
                    if r[0] == "ret":
                        r = ("ret", _ix(w, r[1]))
                    out[(name, un, i, val)] = r
    return out


def full_answers(w, keys, universes=(None,)):
    out = neighbor_answers(w, keys)
    out.update(traversal_answers(w, universes))
    return out


def differential(w, keys, universes_fn=None, fresh=None):
    """
    Cached-vs-uncached comparison on a throw-away copy of the world: `fresh()` re-builds the world
    from its history (preferred); without it a deep copy is used.
    Returns list of keys whose answers differ: [(key, with_flag_as_is, with_flag_off)].
    """
    c = fresh() if fresh is not None else copy.deepcopy(w)
    try:
        # first everything that needs no universe: building a universe for the battery is itself a
        # membership change of the vertices, and must not come before these questions
        Vertex.NEIGHBOR_CACHING = False
        plain = full_answers(c, keys, (None,))
        Vertex.NEIGHBOR_CACHING = bool(c.flag)
        cached = full_answers(c, keys, (None,))
        unis = tuple(universes_fn(c) if universes_fn else ())
        if unis:
            Vertex.NEIGHBOR_CACHING = False
            plain.update(traversal_answers(c, unis, first_index=1))
            Vertex.NEIGHBOR_CACHING = bool(c.flag)
            cached.update(traversal_answers(c, unis, first_index=1))
    finally:
        Vertex.NEIGHBOR_CACHING = bool(w.flag)
    return [(k, cached[k], plain[k]) for k in plain if cached[k] != plain[k]]
