"""
Framework self-test.
  ./check selftest --setup     cheap: imports, interpreter, edgegraph location (MANIFEST.setup_cmd)
  ./check selftest             validates MANIFEST.json and every evidence file against the schemas
                               (jsonschema from the tooling venv)
  ./check selftest findings    replays every recorded counterexample under findings/: repaired ones must not
                               reproduce, the open known finding must
  ./check selftest seeds C01 C02 ...   runs the quick tier for VERIF_SEED in 0..3 and asserts equal
                               state / transition counts and exit 0
"""

import json
import os
import subprocess
import sys

ROOT = os.path.dirname(os.path.dirname(os.path.abspath(__file__)))


def main(argv):
    if argv and argv[0] == "--setup":
        import edgegraph, dill, pyvis  # noqa: F401
        from . import engine_h, structure  # noqa: F401
        os.makedirs(os.path.join(ROOT, "evidence"), exist_ok=True)
        print("setup ok:", sys.version.split()[0], edgegraph.__file__)
        return 0
    if argv and argv[0] == "findings":
        # regression use of the recorded counterexamples: every replay under findings/ belongs to a
        # defect that was repaired (must no longer reproduce) except those of open known findings
        import glob
        import importlib
        known = json.load(open(os.path.join(ROOT, "known_findings.json")))
        import re
        rc = 0
        for f in sorted(glob.glob(os.path.join(ROOT, "findings", "*", "*.json"))):
            rec = json.load(open(f))
            mod = importlib.import_module(f"egmc.props.{rec['property'].lower()}")
            try:
                got = bool(mod.replay(rec))
            except Exception as e:  # noqa: BLE001
                got = f"replay crashed: {type(e).__name__}: {e}"
            is_open = any(k["property"] == rec["property"] and (
                k.get("fingerprint") == rec.get("fingerprint") or
                ("fingerprint_regex" in k and re.fullmatch(k["fingerprint_regex"], rec.get("fingerprint", ""))))
                for k in known.get("open", []))
            ok = (got is True) if is_open else (got is False)
            print(("ok  " if ok else "BAD ") + os.path.relpath(f, ROOT),
                  "open finding, reproduces" if is_open and ok else ("repaired, no longer reproduces" if ok else got))
            rc |= 0 if ok else 1
        return rc
    if argv and argv[0] == "seeds":
        rc = 0
        for prop in argv[1:]:
            counts = set()
            for seed in range(4):
                env = dict(os.environ, VERIF_SEED=str(seed))
                p = subprocess.run([os.path.join(ROOT, "check"), prop, "quick"], env=env,
                                   capture_output=True, text=True)
                ev = json.load(open(os.path.join(ROOT, "evidence", f"{prop}.json")))
                c = ev["coverage"]
                counts.add((p.returncode, c.get("states"), c.get("transitions"), c.get("evaluations")))
            print(prop, sorted(counts, key=repr))
            if len(counts) != 1 or next(iter(counts))[0] != 0:
                rc = 1
        return rc
    code = r"""
import json, sys, glob, jsonschema
ms = json.load(open('/root/.vp/MANIFEST.schema.json'))
es = json.load(open('/root/.vp/EVIDENCE.schema.json'))
m = json.load(open(sys.argv[1] + '/MANIFEST.json'))
jsonschema.validate(m, ms)
bad = 0
for c in m['checks']:
    f = c['evidence_file']
    try:
        ev = json.load(open(f))
        jsonschema.validate(ev, es)
        assert ev['level'] == c['level_claimed']['category'], 'level differs from manifest'
        print('ok ', f, ev['tier'], ev['coverage'].get('states'), ev['coverage'].get('evaluations'))
    except Exception as e:
        bad += 1
        print('BAD', f, str(e)[:300])
sys.exit(1 if bad else 0)
"""
    return subprocess.run(["python3-vt", "-c", code, ROOT]).returncode
