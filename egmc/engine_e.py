"""
Plain exhaustive case enumerator (used by C11, C13, C20 and the leaf products of
other checks): a finite list of cases is split over worker processes; every
case is executed on the real code by `per_case`, which returns
(evaluations, nontrivial, [(fingerprint, record)], outcome_key | None).
Nothing is sampled: the caller materialises the complete case list.
"""

import collections
import multiprocessing
import os
import time

_FN = None


def new_item():
    from .structure import new_item as _n
    _n()


def _run_chunk(cases):
    evals = nontriv = 0
    viols = {}
    outcomes = collections.Counter()
    for case in cases:
        new_item()
        r = _FN(case)
        evals += r[0]
        nontriv += r[1]
        for fp, rec in r[2]:
            e = viols.get(fp)
            if e is None:
                viols[fp] = [1, rec]
            else:
                e[0] += 1
        if len(r) > 3 and r[3] is not None:
            outcomes[r[3]] += 1
    return len(cases), evals, nontriv, viols, outcomes


class EResult:
    pass


def explore(cases, per_case, *, seed=0, workers=None, log=None, label=""):
    global _FN
    _FN = per_case
    workers = workers or int(os.environ.get("VERIF_WORKERS", os.cpu_count() or 1))
    cases = list(cases)
    if seed and cases:
        k = seed % len(cases)
        cases = cases[k:] + cases[:k]
    t0 = time.time()
    res = EResult()
    res.cases = 0
    res.evaluations = 0
    res.nontrivial = 0
    res.viols = {}
    res.outcomes = collections.Counter()
    n = max(1, min(500, len(cases) // (workers * 8) or 1))
    chunks = [cases[i:i + n] for i in range(0, len(cases), n)]
    pool = None
    try:
        if len(cases) < 64 or workers == 1:
            it = map(_run_chunk, chunks)
        else:
            pool = multiprocessing.get_context("fork").Pool(workers)
            it = pool.imap_unordered(_run_chunk, chunks)
        for nc, evals, nontriv, viols, outcomes in it:
            res.cases += nc
            res.evaluations += evals
            res.nontrivial += nontriv
            res.outcomes.update(outcomes)
            for fp, (c, rec) in viols.items():
                e = res.viols.get(fp)
                if e is None:
                    res.viols[fp] = [c, rec]
                else:
                    e[0] += c
                    if len(repr(rec)) < len(repr(e[1])):
                        e[1] = rec
    finally:
        if pool is not None:
            pool.terminate()
            pool.join()
    res.wall = time.time() - t0
    res.samples = [cases[i] for i in (0, len(cases) // 2, len(cases) - 1)] if cases else []
    if log:
        log(f"  {label}: cases={res.cases} evaluations={res.evaluations} violations={len(res.viols)} t={res.wall:.1f}s")
    return res
