"""Command line: ./check <Cxx> [quick|thorough] | ./check replay <file> | ./check selftest"""

import importlib
import json
import os
import sys
import time
import traceback


def _assert_repo():
    import edgegraph
    repo = os.environ.get("EDGEGRAPH_REPO", "/repo")
    f = os.path.realpath(edgegraph.__file__)
    if not f.startswith(os.path.realpath(repo) + os.sep):
        print(f"HARNESS ERROR: edgegraph imported from {f}, expected under {repo}")
        sys.exit(2)


def log(msg):
    print(msg, file=sys.stderr, flush=True)


def main(argv):
    from .report import HarnessError
    if not argv:
        print(__doc__)
        return 2
    _assert_repo()
    cmd = argv[0]
    try:
        if cmd == "replay":
            with open(argv[1]) as f:
                rec = json.load(f)
            mod = importlib.import_module(f"egmc.props.{rec['property'].lower()}")
            ok = mod.replay(rec, verbose=True)
            print("REPRODUCED" if ok else "not reproduced")
            return 1 if ok else 0
        if cmd == "selftest":
            from . import selftest
            return selftest.main(argv[1:])
        prop = cmd.upper()
        tier = argv[1] if len(argv) > 1 else os.environ.get("VERIF_TIER", "quick")
        if tier not in ("quick", "thorough"):
            print(f"unknown tier {tier}")
            return 2
        seed = int(os.environ.get("VERIF_SEED", "0") or 0)
        # whole-run wall-clock budget: a state space that a (broken) library makes unbounded must not
        # keep the check running forever; what was explored until then is reported as usual
        os.environ.setdefault("EGMC_DEADLINE", str(time.time() + (900 if tier == "quick" else 4 * 3600)))
        if tier == "thorough":
            # every pool / space of the thorough tier runs under a wall-clock budget; if it is hit the
            # evidence says so (exhaustive: false, what was completed below the cap)
            os.environ.setdefault("EGMC_POOL_CAP_S", "1500")
        mod = importlib.import_module(f"egmc.props.{prop.lower()}")
        return mod.run(tier, seed, log)
    except HarnessError as e:
        print(f"HARNESS ERROR: {e}")
        traceback.print_exc()
        return 2
    except Exception as e:  # noqa: BLE001 - a crash of the machinery must never look like a verdict
        print(f"HARNESS ERROR: uncaught {type(e).__name__}: {e}")
        traceback.print_exc()
        return 2


if __name__ == "__main__":
    sys.exit(main(sys.argv[1:]))
