"""
Engine F -- enumeration of the answers of an owned source of nondeterminism.

`enumerate_choices(run, bound)` is the stateless systematic search of the CHESS
idiom for sequential code: `run(prefix)` re-executes the scenario from scratch,
answering the i-th choice point with prefix[i] while the prefix lasts and with
alternative 0 (the default answer) afterwards, and returns its result together
with the trace [(number_of_alternatives, chosen)] of all choice points it met.
Every alternative at every choice point beyond the prefix is then scheduled, so
with bound=None every leaf of the choice tree is executed exactly once
(complete enumeration); with bound=d only executions with at most d non-default
answers (deviations) are run.  Executions always run to completion.
"""

from .report import HarnessError


class Chooser:
    """Hands out choices for one execution."""

    def __init__(self, prefix):
        self.prefix = list(prefix)
        self.trace = []

    def choose(self, n, what=""):
        if n <= 0:
            raise HarnessError(f"choice point with no alternatives: {what}")
        i = len(self.trace)
        if i < len(self.prefix):
            c = self.prefix[i]
            if c >= n:
                raise HarnessError(
                    f"replay divergence: choice {c} out of range {n} at point {i} ({what})")
        else:
            c = 0
        self.trace.append((n, c))
        return c


def split_prefixes(run, depth):
    """
    Prefixes (of length <= depth) that partition the choice tree: every leaf lies below exactly one
    of them.  Used to shard one large complete enumeration over worker processes.
    """
    out = []
    stack = [[]]
    while stack:
        p = stack.pop()
        trace = run(p)
        if len(p) >= depth or len(trace) <= len(p):
            out.append(p)
            continue
        n = trace[len(p)][0]
        for alt in range(n):
            stack.append(p + [alt])
    return out


def enumerate_choices(run, bound=None, max_executions=None, root=()):
    """
    run(prefix) -> trace   (the caller checks its own result inside run)
    Returns (executions, max_trace_len, truncated).  With `root`, only the subtree below that
    prefix is enumerated (choices inside the root prefix are never varied).
    """
    stack = [list(root)]
    n_exec = 0
    max_len = 0
    while stack:
        prefix = stack.pop()
        trace = run(prefix)
        n_exec += 1
        max_len = max(max_len, len(trace))
        if [c for _, c in trace[:len(prefix)]] != list(prefix):
            raise HarnessError("replay divergence: the prefix was not followed")
        if max_executions is not None and n_exec >= max_executions:
            return n_exec, max_len, True
        dev = sum(1 for _, c in trace[len(root):len(prefix)] if c)
        for i in range(len(trace) - 1, len(prefix) - 1, -1):
            n, _ = trace[i]
            if bound is not None and dev + 1 > bound:
                continue
            base = [c for _, c in trace[:i]]
            for alt in range(n - 1, 0, -1):
                stack.append(base + [alt])
    return n_exec, max_len, False
