"""
Importable helper classes and pure filter functions used by the checks (they
must live in an importable module so that pickled graphs can be loaded in a
fresh interpreter, and so that the *same* function object is reused as a cache
key across calls).
"""

from edgegraph.structure import (
    Vertex, TwoEndedLink, DirectedEdge, UnDirectedEdge, Link,
)
from edgegraph.traversal import helpers


class SubDirected(DirectedEdge):
    pass


class SubUndirected(UnDirectedEdge):
    pass


class OtherTwoEnded(TwoEndedLink):
    """A two-ended link type that is neither of the two edge families."""


class HyperLink(Link):
    """A plain Link subclass (arbitrary arity)."""


class VA(Vertex):
    pass


class VB(VA):
    pass


class FalsyBoolVertex(Vertex):
    def __bool__(self):
        return False


class FalsyLenVertex(Vertex):
    def __len__(self):
        return 0


# ---- filters: pure, module level, (edge, other_vertex) -> bool -------------

def f_accept(e, v):
    return True


def f_reject(e, v):
    return False


def f_vertex_not1(e, v):
    """selective on the vertex: rejects the vertex labelled i == 1"""
    return getattr(v, "i", None) != 1


def f_link_not_directed(e, v):
    """selective on the link: rejects every (sub)class of DirectedEdge"""
    return not isinstance(e, DirectedEdge)


def f_link_tagged(e, v):
    """selective on the link: accepts links whose attribute `t` is even / absent"""
    return getattr(e, "t", 0) % 2 == 0


def _mk_default_filter(k):
    # distinct function objects that share one code object and differ only in a default argument
    # (the loop-binding idiom `lambda e, v, k=k: ...`): a cache keyed on anything coarser than the
    # function object itself confuses them
    def f_by_default(e, v, k=k):
        return getattr(v, "i", None) != k
    f_by_default.__qualname__ = f"f_by_default_{k}"
    return f_by_default


f_by_default_0 = _mk_default_filter(0)
f_by_default_1 = _mk_default_filter(1)


NB_FILTERS = {
    "seld0": f_by_default_0,
    "seld1": f_by_default_1,
    "none": None,
    "accept": f_accept,
    "reject": f_reject,
    "selv": f_vertex_not1,
    "sell": f_link_tagged,
    "selc": f_link_not_directed,
}


# find_links filters take the link only
def g_accept(e):
    return True


def g_reject(e):
    return False


def g_link_tagged(e):
    return getattr(e, "t", 0) % 2 == 0


def g_link_not_directed(e):
    return not isinstance(e, DirectedEdge)


FL_FILTERS = {
    "none": None,
    "accept": g_accept,
    "reject": g_reject,
    "sell": g_link_tagged,
    "selc": g_link_not_directed,
}

# ff_result filters take a vertex
def r_accept(v):
    return True


def r_reject(v):
    return False


def r_not1(v):
    return getattr(v, "i", None) != 1


RES_FILTERS = {"none": None, "accept": r_accept, "reject": r_reject, "sel": r_not1}

DIRS = {
    "FWD": helpers.DIR_SENS_FORWARD,
    "ANY": helpers.DIR_SENS_ANY,
    "BWD": helpers.DIR_SENS_BACKWARD,
}
UNKS = {
    "NON": helpers.LNK_UNKNOWN_NONNEIGHBOR,
    "NBR": helpers.LNK_UNKNOWN_NEIGHBOR,
    "ERR": helpers.LNK_UNKNOWN_ERROR,
}
