"""
Independent oracles (DESIGN 3.4): small re-implementations of the documented
rules, written against public accessors only.
"""

import collections

from edgegraph.structure import DirectedEdge, UnDirectedEdge
from edgegraph.traversal import helpers

FWD, ANY, BWD = helpers.DIR_SENS_FORWARD, helpers.DIR_SENS_ANY, helpers.DIR_SENS_BACKWARD
NON, NBR, ERR = (helpers.LNK_UNKNOWN_NONNEIGHBOR, helpers.LNK_UNKNOWN_NEIGHBOR,
                 helpers.LNK_UNKNOWN_ERROR)

RAISES = "NotImplementedError"
EITHER = "either"


def link_kind(link):
    if isinstance(link, UnDirectedEdge):
        return "U"
    if isinstance(link, DirectedEdge):
        return "D"
    return "X"


def nb_oracle(v, direction, unknown, f):
    """
    Returns (expected_list, raise_mode): raise_mode is None (must return expected_list),
    RAISES (must raise NotImplementedError) or EITHER (raising or returning expected_list).
    """
    out = []
    unknown_seen = False
    unknown_accepted = False
    for link in v.links:
        p, q = link.vertices
        o = q if p is v else p
        kind = link_kind(link)
        if direction == ANY or kind == "U":
            qualifies = True
        elif kind == "D":
            qualifies = (p is v) if direction == FWD else (q is v)
        else:
            if unknown == NON:
                qualifies = False
            elif unknown == NBR:
                qualifies = True
            else:
                unknown_seen = True
                qualifies = False
                if f is None or f(link, o):
                    unknown_accepted = True
        if qualifies and (f is None or f(link, o)):
            out.append(o)
    if unknown_seen:
        return out, (RAISES if unknown_accepted else EITHER)
    return out, None


def fl_oracle(a, b, ds, unknown, f):
    """Returns (expected_set_of_links, raise_mode)."""
    out = []
    unknown_seen = unknown_accepted = False
    for link in a.links:
        p, q = link.vertices
        if not ((p is a and q is b) or (p is b and q is a)):
            continue
        kind = link_kind(link)
        if not ds or kind == "U":
            qualifies = True
        elif kind == "D":
            qualifies = p is a
        else:
            if unknown == NON:
                qualifies = False
            elif unknown == NBR:
                qualifies = True
            else:
                unknown_seen = True
                qualifies = False
                if f is None or f(link):
                    unknown_accepted = True
        if qualifies and (f is None or f(link)):
            out.append(link)
    if unknown_seen:
        return out, (RAISES if unknown_accepted else EITHER)
    return out, None


# ---- traversal orders, parameterised by a neighbour function ------------------

def reach(start, nbf, member):
    seen = [start]
    queue = collections.deque([start])
    while queue:
        u = queue.popleft()
        for w in nbf(u):
            if member(w) and not any(w is s for s in seen):
                seen.append(w)
                queue.append(w)
    return seen


def bfs_order(start, nbf, member):
    return reach(start, nbf, member)      # FIFO, mark on enqueue: discovery order


def dfs_pre_order(start, nbf, member):
    out = []

    def rec(v):
        out.append(v)
        for w in nbf(v):
            if member(w) and not any(w is s for s in out):
                rec(w)

    rec(start)
    return out


def dfs_stack_order(start, nbf, member):
    out = []
    stack = [start]
    while stack:
        v = stack.pop()
        if any(v is s for s in out):
            continue
        if not member(v):
            continue
        out.append(v)
        for w in nbf(v):
            stack.append(w)
    return out


def bfs_layers(start, nbf, member):
    dist = {id(start): 0}
    order = [start]
    queue = collections.deque([start])
    while queue:
        u = queue.popleft()
        for w in nbf(u):
            if member(w) and id(w) not in dist:
                dist[id(w)] = dist[id(u)] + 1
                order.append(w)
                queue.append(w)
    return dist
