"""
Engine G -- graph-space explorer.

The input space "all small ordered multigraphs" is explored as a state graph:
the initial state is `nv` isolated vertices; a transition constructs one link
`cls(v_i, v_j)` through the public constructor (every class of the pool, every
ordered end pair including self-loops); optionally (`mutations=True`) one
further transition re-points an end or unlinks a pair, which yields per-vertex
link orders that construction alone cannot produce.  Every state is an
*ordered* multigraph (the order of each vertex's `links` is part of the state).
In every state the caller's `per_state` function evaluates its property for the
full product of its configuration alphabet.

Every state is built from scratch on the real code by replaying its op
sequence, and validated against the reference model (structure.model_step): a
state whose real structure differs from the model (a C01/C03 matter) is
skipped and counted, never reported under the downstream property.
"""

import itertools
import multiprocessing
import os
import time
import collections

from .structure import new_item, SWorld, apply_op, observe, model_step, UNSPEC, LINK_CLASSES
from .report import HarnessError

_FN = None
_SPEC = None


def sequences(spec):
    """All op sequences of the space, shortest first."""
    if spec.get("explicit") is not None:
        return [tuple(tuple(o) for o in q) for q in spec["explicit"]]
    nv, maxl, classes = spec["nv"], spec["maxl"], spec["classes"]
    minl = spec.get("minl", 0)
    loops = spec.get("self_loops", True)
    upper = spec.get("pairs") == "upper"        # only i < j (enough for undirected link classes)
    if isinstance(spec.get("pairs"), (list, tuple)):
        # an explicit list of end pairs: "pumped" spaces with many links over few pairs
        choices = [("new", c, i, j) for c in classes for (i, j) in spec["pairs"]]
    else:
        choices = [("new", c, i, j) for c in classes for i in range(nv) for j in range(nv)
                   if (loops or i != j) and (not upper or i < j)]
    out = []
    for n in range(0, maxl + 1):
        for seq in itertools.product(choices, repeat=n):
            if n >= minl:
                out.append(seq)
            if spec.get("mutations") and n >= 1 and n <= spec.get("mut_maxl", maxl):
                for l in range(n):
                    for x in range(nv):
                        out.append(seq + (("set_v1", l, x),))
                        out.append(seq + (("set_v2", l, x),))
                for a in range(nv):
                    for b in range(a, nv):
                        out.append(seq + (("unlink", a, b, True),))
    return out


def count_sequences(spec):
    return len(sequences(spec))


def build(spec, seq, validate=True):
    """Returns (world, ok).  ok is False if the real structure departs from the model."""
    w = SWorld(spec["nv"], spec.get("nu", 0), vclasses=spec.get("vclasses"), twin=bool(spec.get("twin")))
    ok = True
    exp = observe(w) if validate else None
    for k, op in enumerate(seq):
        r = apply_op(w, op)
        if op[0] == "new" and r[0] == "ret":
            w.l[-1].t = len(w.l) - 1          # tag used by the link-selective filters
        if validate:
            m = model_step(exp, op)
            if m is UNSPEC or r[0] != "ret":
                ok = False
                break
            got = observe(w)
            for cand, _ret in m:
                if got["vl"] == cand["vl"] and got["lv"] == cand["lv"] and got["cl"] == cand["cl"]:
                    exp = got
                    break
            else:
                ok = False
                break
    return w, ok


def _run_chunk(seqs):
    fn, spec = _FN, _SPEC
    evals = nontriv = skipped = 0
    viols = {}
    outcomes = collections.Counter()
    for seq in seqs:
        new_item()
        w, ok = build(spec, seq)
        if not ok:
            skipped += 1
            continue
        r = fn(spec, seq, w)
        evals += r[0]
        nontriv += r[1]
        for fp, rec in r[2]:
            e = viols.get(fp)
            if e is None:
                viols[fp] = [1, rec]
            else:
                e[0] += 1
        if len(r) > 3 and r[3]:
            outcomes.update(r[3])
    return len(seqs), evals, nontriv, skipped, viols, outcomes


class GResult:
    pass


def explore(spec, per_state, *, seed=0, workers=None, log=None, time_cap=None):
    """
    per_state(spec, seq, world) -> (evaluations, nontrivial, [(fingerprint, record)], outcomes Counter|None)
    """
    global _FN, _SPEC
    _FN, _SPEC = per_state, spec
    workers = workers or int(os.environ.get("VERIF_WORKERS", os.cpu_count() or 1))
    if time_cap is None and os.environ.get("EGMC_POOL_CAP_S"):
        time_cap = float(os.environ["EGMC_POOL_CAP_S"])
    t0 = time.time()
    if os.environ.get("EGMC_DEADLINE"):
        left = max(1.0, float(os.environ["EGMC_DEADLINE"]) - t0)
        time_cap = left if time_cap is None else min(time_cap, left)
    seqs = sequences(spec)
    if seed:
        k = seed % max(1, len(seqs))
        seqs = seqs[k:] + seqs[:k]
    res = GResult()
    res.states = 0
    res.evaluations = 0
    res.nontrivial = 0
    res.skipped = 0
    res.viols = {}
    res.outcomes = collections.Counter()
    res.exhaustive = True
    res.cap = None
    res.total = len(seqs)
    n = max(1, min(400, len(seqs) // (workers * 8) or 1))
    chunks = [seqs[i:i + n] for i in range(0, len(seqs), n)]
    pool = None
    try:
        if len(seqs) < 64 or workers == 1:
            it = map(_run_chunk, chunks)
        else:
            pool = multiprocessing.get_context("fork").Pool(workers)
            it = pool.imap_unordered(_run_chunk, chunks)
        done = 0
        for ns, evals, nontriv, skipped, viols, outcomes in it:
            res.states += ns
            res.evaluations += evals
            res.nontrivial += nontriv
            res.skipped += skipped
            res.outcomes.update(outcomes)
            for fp, (c, rec) in viols.items():
                e = res.viols.get(fp)
                if e is None:
                    res.viols[fp] = [c, rec]
                else:
                    e[0] += c
                    if len(rec.get("seq", ())) < len(e[1].get("seq", ())):
                        e[1] = rec
            done += 1
            if time_cap is not None and time.time() - t0 > time_cap:
                res.exhaustive = False
                res.cap = f"time cap {time_cap}s hit after {res.states} of {res.total} states"
                break
    finally:
        if pool is not None:
            pool.terminate()
            pool.join()
    # transitions of the construction state graph: one per op of every sequence's last step
    res.transitions = max(1, res.states - 1)
    res.wall = time.time() - t0
    res.samples = [list(map(list, seqs[i])) for i in (len(seqs) // 3, len(seqs) // 2, len(seqs) - 1) if seqs]
    if log:
        log(f"  space { {k: v for k, v in spec.items() if k != 'explicit'} }: states={res.states} evaluations={res.evaluations} skipped={res.skipped} "
            f"violations={len(res.viols)} t={res.wall:.1f}s")
    return res


def merge_coverage(results, rule, extra=None):
    cov = {
        "states": sum(r.states for r, _ in results),
        "transitions": sum(r.transitions for r, _ in results),
        "traces_validated_against_impl": sum(r.states for r, _ in results),
        "evaluations": sum(r.evaluations for r, _ in results),
        "distinct_nontrivial": sum(r.nontrivial for r, _ in results),
        "states_skipped_not_wellformed": sum(r.skipped for r, _ in results),
        "rule": rule,
        "exhaustive": all(r.exhaustive for r, _ in results),
        "spaces": [{"space": s, "states": r.states, "evaluations": r.evaluations,
                    "skipped": r.skipped, "cap_hit": r.cap, "wall_s": round(r.wall, 1)} for r, s in results],
        "distinct_observed_outcomes": sum(len(r.outcomes) for r, _ in results),
        "samples": [{"space": {k: v for k, v in s.items() if k != "vclasses"}, "ops": q}
                    for r, s in results for q in r.samples[:2]],
    }
    if extra:
        cov.update(extra)
    return cov


# --------------------------------------------------------------------------
# graph families: deterministic shapes at a ladder of sizes (the complement of the exhaustive small
# spaces for behaviour that depends on a size threshold)

FAMILY_SHAPES = ("chain-D", "chain-U", "ring-D", "star-out", "star-in", "star-mixed", "bitree-U",
                 "fan-parallel", "two-level", "complete-D")


def family_sequence(shape, n):
    """op sequence building `shape` on n vertices (v0..v(n-1)); None if the shape is not defined for n"""
    ops = []
    if shape == "chain-D":
        ops = [("new", "D", i, i + 1) for i in range(n - 1)]
    elif shape == "chain-U":
        ops = [("new", "U", i, i + 1) for i in range(n - 1)]
    elif shape == "ring-D":
        ops = [("new", "D", i, (i + 1) % n) for i in range(n)]
    elif shape == "star-out":
        ops = [("new", "D", 0, k) for k in range(1, n)]
    elif shape == "star-in":
        ops = [("new", "D", k, 0) for k in range(1, n)]
    elif shape == "star-mixed":
        ops = [("new", "D" if k % 3 else "U", 0 if k % 2 else k, k if k % 2 else 0) for k in range(1, n)]
    elif shape == "bitree-U":
        ops = [("new", "U", (i - 1) // 2, i) for i in range(1, n)]
    elif shape == "fan-parallel":
        # n-1 links from v0 alternating between v1 and v2 (repeated neighbours), the rest isolated
        if n < 3:
            return None
        ops = [("new", "D", 0, 1 + (k % 2)) for k in range(n - 1)]
    elif shape == "two-level":
        # v0 -> v1..vm, and each v_k -> v_(m+k): vertices at hop distance 2 with different parents
        m = (n - 1) // 2
        if m < 2:
            return None
        ops = [("new", "D", 0, k) for k in range(1, m + 1)] + [("new", "D", k, m + k) for k in range(1, m + 1)]
    elif shape == "complete-D":
        if n > 6:
            return None
        ops = [("new", "D", i, j) for i in range(n) for j in range(n) if i != j]
    else:
        raise ValueError(shape)
    return tuple(ops)


def family_specs(sizes, shapes=FAMILY_SHAPES, extra=None):
    """one spec per size, each carrying the explicit sequences of every shape defined for that size"""
    out = []
    for n in sizes:
        seqs = [s for s in (family_sequence(sh, n) for sh in shapes) if s]
        spec = dict(nv=n, maxl=max(len(s) for s in seqs), classes=("D", "U"), explicit=seqs,
                    family=[sh for sh in shapes if family_sequence(sh, n)])
        if extra:
            spec.update(extra)
        out.append(spec)
    return out
