"""
Identity-aware canonical form of a graph of real edgegraph objects.

`canon_graph(roots)` walks everything reachable from `roots` through
`vars()` of every edgegraph object and through lists / dicts / tuples / sets,
names every mutable node (object, list, dict, set) by the order of its first
visit, and returns a nested tuple that is equal for two object graphs iff they
are isomorphic as *pointed* object graphs (same classes, same attribute names
and atomic values, same order of every list, same sharing).  The walk is
iterative (a work queue), so graphs far deeper than the recursion limit can be
canonicalised (needed for C10).

Options:
  uid         "drop"  -> `_uid` values are replaced by a constant (engine H: the
                         structure code never branches on a uid)
              "keep"  -> `_uid` values are part of the form (C10)
  skip_attrs  attribute names left out of every object (e.g. the neighbour memo
              for C13, where filling the memo is the point of caching)
  registered  if given, a callable vertex -> bool recorded per Vertex ("is the
              uid registered in Vertex._CACHE_STATS")
"""

import hashlib
import types

from edgegraph.structure import base
from edgegraph.structure.vertex import Vertex as _Vertex

ATOMS = (int, float, str, bytes, bool, type(None), complex)


class Unsupported(Exception):
    """The canonicaliser met a value it has no rule for (harness error)."""


def _fn_name(f):
    return ("fn", getattr(f, "__module__", "?"), getattr(f, "__qualname__", repr(f)))


def canon_graph(roots, *, uid="drop", skip_attrs=(), registered=None, extra_objects=(), return_nodes=False):
    ids = {}      # id(node) -> index
    nodes = []    # node objects, by index (kept alive so that ids stay unique)
    descs = []    # index -> description (filled when dequeued)
    queue = []

    def ref(x):
        """Reference to x as it appears inside a description."""
        if isinstance(x, ATOMS):
            if isinstance(x, float) and x != x:
                return ("nan",)
            return (type(x).__name__, x)
        if isinstance(x, tuple):
            return ("tuple",) + tuple(ref(e) for e in x)
        if isinstance(x, frozenset):
            return ("frozenset",) + tuple(sorted((ref(e) for e in x), key=repr))
        if isinstance(x, type):
            return ("cls", x.__module__, x.__qualname__)
        if isinstance(x, (types.FunctionType, types.BuiltinFunctionType, types.MethodType)):
            return _fn_name(x)
        if isinstance(x, types.CodeType):
            return ("code", x.co_filename, x.co_name, x.co_firstlineno)
        if isinstance(x, types.CellType):
            try:
                return ("cell", ref(x.cell_contents))
            except ValueError:
                return ("cell-empty",)
        if isinstance(x, types.MappingProxyType):
            return ("mproxy",) + tuple(
                sorted(((ref(k), ref(v)) for k, v in x.items()), key=repr)
            )
        if isinstance(x, (base.BaseObject, list, dict, set)) or hasattr(x, "__dict__"):
            i = ids.get(id(x))
            if i is None:
                i = len(nodes)
                ids[id(x)] = i
                nodes.append(x)
                descs.append(None)
                queue.append(i)
            return ("#", i)
        raise Unsupported(f"no canonical form for {type(x)!r}: {x!r}")

    pending_sets = []
    top = tuple(ref(r) for r in roots)
    for e in extra_objects:
        ref(e)
    qi = 0
    while True:
      if qi >= len(queue):
        # resolve sets of objects: elements already visited keep their index; elements reachable only
        # through a set are visited now, in an order fixed by their class name (ties: harness error)
        progressed = False
        for si in list(pending_sets):
            _, atoms, objs = descs[si]
            unknown = [o for o in objs if id(o) not in ids]
            if unknown:
                names = sorted(type(o).__qualname__ for o in unknown)
                if len(set(names)) != len(names):
                    raise Unsupported("several objects reachable only through a set: no canonical order")
                for o in sorted(unknown, key=lambda o: type(o).__qualname__):
                    ref(o)
                progressed = True
                continue
            descs[si] = ("set",) + atoms + tuple(sorted(("#", ids[id(o)]) for o in objs))
            pending_sets.remove(si)
            progressed = True
        if qi >= len(queue) and not pending_sets:
            break
        if not progressed:
            raise Unsupported("unresolvable set")
        continue
      while qi < len(queue):
          i = queue[qi]
          qi += 1
          x = nodes[i]
          if isinstance(x, list):
              descs[i] = ("list",) + tuple(ref(e) for e in x)
          elif isinstance(x, dict):
              items = [(ref(k), ref(v)) for k, v in x.items()]
              # keys are atoms / classes / tuples of atoms and functions: their refs
              # do not depend on visiting order, so sorting by them is canonical
              items.sort(key=lambda kv: repr(kv[0]))
              descs[i] = ("dict",) + tuple(items)
          elif isinstance(x, set):
              atoms, objs = [], []
              for e in x:
                  if isinstance(e, ATOMS) or isinstance(e, (tuple, frozenset, type)):
                      atoms.append(ref(e))
                  else:
                      objs.append(e)
              if objs:
                  # a set of mutable objects has no order of its own: it is described by the indices its
                  # elements get elsewhere in the walk, so it is resolved after everything else
                  descs[i] = ("set-pending", tuple(sorted(atoms, key=repr)), objs)
                  pending_sets.append(i)
              else:
                  descs[i] = ("set",) + tuple(sorted(atoms, key=repr))
          else:
              attrs = []
              for k in sorted(vars(x)):
                  if k in skip_attrs:
                      continue
                  v = vars(x)[k]
                  if uid == "drop" and isinstance(x, base.BaseObject) and isinstance(v, int) \
                          and not isinstance(v, bool) and v == x.uid and v > 2 ** 64:
                      attrs.append((k, "uid"))          # the attribute that stores the (random) uid
                  else:
                      attrs.append((k, ref(v)))
              d = ("obj", type(x).__module__, type(x).__qualname__, tuple(attrs))
              if registered is not None and isinstance(x, _Vertex):
                  d = d + (("registered", bool(registered(x))),)
              descs[i] = d
    if return_nodes:
        return (top, tuple(descs)), nodes
    return (top, tuple(descs))


def digest(form) -> bytes:
    """128-bit digest of a canonical form (state deduplication key)."""
    return hashlib.blake2b(repr(form).encode(), digest_size=16).digest()
