#!/venv/bin/python
"""
Behaviour-preserving refactorings (written by independent sub-agents) kept under /verif/benign/<id>/.
Every check must stay silent on them ("never raise an alarm on code where the property holds").

  tools/benign.py ingest <id> <worktree>     copy patch.diff / NOTES.md out of a scratch worktree
  tools/benign.py run <id> [Cxx ...]         apply the patch to a scratch copy of /repo's edgegraph/ and run the
                                             quick tier of every (or the named) check against it with
                                             EDGEGRAPH_REPO pointing at the copy; prints exit codes; exit 1 if any
                                             check did not exit 0
"""
import json
import os
import shutil
import subprocess
import sys
import tempfile

ROOT = os.path.dirname(os.path.dirname(os.path.abspath(__file__)))
DIR = os.path.join(ROOT, "benign")
ALL = [f"C{i:02d}" for i in range(1, 21)]


def sh(cmd, **kw):
    return subprocess.run(cmd, capture_output=True, text=True, **kw)


def ingest(bid, wt):
    d = os.path.join(DIR, bid)
    os.makedirs(d, exist_ok=True)
    sh(["git", "-C", wt, "add", "-N", "edgegraph"])          # so that new files are part of the diff
    diff = sh(["git", "-C", wt, "diff", "--", "edgegraph"]).stdout
    if not diff.strip():
        sys.exit("no diff under edgegraph/")
    open(os.path.join(d, "patch.diff"), "w").write(diff)
    if os.path.exists(os.path.join(wt, "NOTES.md")):
        shutil.copy(os.path.join(wt, "NOTES.md"), os.path.join(d, "NOTES.md"))
    print("ingested", bid, len(diff.splitlines()), "diff lines")


def run(bid, props):
    d = os.path.join(DIR, bid)
    scratch = tempfile.mkdtemp(prefix=f"bn_{bid}_", dir="/tmp")
    results = {}
    try:
        # the committed tree (HEAD), not the working tree: a seeded patch may be applied to /repo right now
        base = "HEAD"
        if os.path.exists(os.path.join(d, "base")):
            base = open(os.path.join(d, "base")).read().strip()      # the commit the refactoring was written against
        ar = subprocess.run(f"git -C /repo archive {base} edgegraph | tar -x -C " + scratch, shell=True)
        if ar.returncode:
            sys.exit("git archive failed")
        ap = sh(["patch", "-p1", "-s", "-d", scratch, "-i", os.path.join(d, "patch.diff")])
        if ap.returncode:
            sys.exit("patch does not apply: " + ap.stdout + ap.stderr)
        for prop in props:
            env = dict(os.environ, EDGEGRAPH_REPO=scratch, EGMC_EVIDENCE_DIR=os.path.join(scratch, "ev"),
                       EGMC_REPLAY_DIR=os.path.join(scratch, "rp"))
            r = sh([os.path.join(ROOT, "check"), prop, "quick"], env=env)
            lines = [l.strip() for l in r.stdout.splitlines()
                     if l.startswith(("VIOLATION", "HARNESS", "NOT-REPRO", "NON-DET")) or l.strip().startswith("fingerprint:")]
            # how much was explored, next to what the same check explores on /repo itself: a check that
            # silently explores (much) less on the refactored code has become vacuous there
            import re
            m = re.search(r"\[%s quick\] states=(\d+) transitions=(\d+) evaluations=(\d+)" % prop, r.stdout)
            got = tuple(map(int, m.groups())) if m else None
            ref = None
            try:
                ev = json.load(open(os.path.join(ROOT, "evidence", prop + ".json")))
                if ev.get("tier") == "quick":
                    c = ev["coverage"]
                    ref = (c.get("states"), c.get("transitions"), c.get("evaluations"))
            except Exception:  # noqa: BLE001
                pass
            thin = bool(got and ref and ref[0] and ref[2] and (got[0] < 0.5 * ref[0] or got[2] < 0.5 * ref[2]))
            results[prop] = {"rc": r.returncode, "lines": lines[:6], "explored": got, "explored_on_repo": ref,
                             "explores_much_less_than_on_repo": thin}
            print(f"{bid} {prop} rc={r.returncode} explored={got} on-repo={ref}{' THIN' if thin else ''} "
                  f"{' | '.join(lines[:3])[:300]}", flush=True)
    finally:
        shutil.rmtree(scratch, ignore_errors=True)
    mp = os.path.join(d, "results.json")
    old = json.load(open(mp)) if os.path.exists(mp) else {}
    old.update(results)
    json.dump(old, open(mp, "w"), indent=1)
    return all(v["rc"] == 0 and not v.get("explores_much_less_than_on_repo") for v in results.values())


if __name__ == "__main__":
    a = sys.argv[1:]
    if a[0] == "ingest":
        ingest(a[1], a[2])
    elif a[0] == "run":
        sys.exit(0 if run(a[1], a[2:] or ALL) else 1)
