#!/venv/bin/python
"""Regenerates /verif/MANIFEST.json from the table below (keeps it valid at all times)."""
import json
import os

ROOT = os.path.dirname(os.path.dirname(os.path.abspath(__file__)))

H = "engine_h"
G = "engine_g"
F = "engine_f"

# the per-check table lives in tools/checks.json (id -> engine, design_ref, technique, category, text, note)
CHECKS = {k: (v["engine"], v["design_ref"], v["technique"], v["category"], v["text"], v["note"])
          for k, v in json.load(open(os.path.join(ROOT, "tools", "checks.json"))).items()}

NOT_YET = "check under construction in this session (see DESIGN.md for the planned exhaustive check)"


def main():
    props = [json.loads(l) for l in open(os.path.join(ROOT, "properties.jsonl"))]
    checks = []
    na = []
    for p in props:
        pid = p["id"]
        if pid in CHECKS:
            eng, ref, tech, cat, text, note = CHECKS[pid]
            checks.append({
                "property_id": pid,
                "quick_cmd": f"./check {pid} quick",
                "thorough_cmd": f"./check {pid} thorough",
                "evidence_file": f"/verif/evidence/{pid}.json",
                "replay_cmd_template": "./check replay {path}",
                "engine": eng,
                "level_claimed": {"category": cat, "text": text, "design_ref": ref},
                "level_note": note,
                "technique": tech,
            })
        else:
            na.append({"property_id": pid, "reason": NOT_YET})
    m = {
        "version": 1,
        "setup_cmd": "cd /verif && chmod +x check && ./check selftest --setup",
        "hooks": {
            "guard": "EDGEGRAPH_VERIF",
            "enable": "no source hooks exist: the checks import /repo's working tree "
                      "(PYTHONPATH=/repo, fresh interpreter per check) and drive public seams only; "
                      "./check exports EDGEGRAPH_VERIF=1 for uniformity",
            "baseline_off_cmd": "cd /repo && /venv/bin/python -m pytest -ra -q -p no:cacheprovider "
                                "--timeout=900 --continue-on-collection-errors",
            "source_commits": [],
            "add_only": True,
        },
        "engines": [
            {"name": H, "path": "egmc/engine_h.py",
             "serves_properties": sorted(k for k, v in CHECKS.items() if v[0] == H),
             "kind_free_text": "explicit-state BFS over operation histories on real objects, canonical-state "
                               "deduplication, reference model / invariant on every transition"},
            {"name": G, "path": "egmc/engine_g.py",
             "serves_properties": sorted(k for k, v in CHECKS.items() if v[0] == G),
             "kind_free_text": "exhaustive enumeration of all small ordered multigraphs as a construction "
                               "state graph, property evaluated in every state for the full configuration product"},
            {"name": "engine_e", "path": "egmc/engine_e.py",
             "serves_properties": sorted(k for k, v in CHECKS.items() if v[0] == "engine_e"),
             "kind_free_text": "complete enumeration of a finite case list on the real code, sharded over workers"},
            {"name": F, "path": "egmc/engine_f.py",
             "serves_properties": sorted(k for k, v in CHECKS.items() if v[0] == F),
             "kind_free_text": "deviation-bounded / complete enumeration of environment answers "
                               "(callback fault points, random draws)"},
        ],
        "checks": checks,
        "notes": "All checks run /venv/bin/python on /repo's current working tree; no model separate from the "
                 "code is used (the reference models are plain Python, conformance is checked on every "
                 "transition). Genuine defects found on the pinned tree were repaired by 'fix:' commits in "
                 "/repo and are recorded in known_findings.json.",
        "not_applicable": na,
    }
    with open(os.path.join(ROOT, "MANIFEST.json"), "w") as f:
        json.dump(m, f, indent=1)
    print(f"MANIFEST.json: {len(checks)} checks, {len(na)} not_applicable")


if __name__ == "__main__":
    main()
