#!/venv/bin/python
"""Regenerates /verif/MANIFEST.json from the table below (keeps it valid at all times)."""
import json
import os

ROOT = os.path.dirname(os.path.dirname(os.path.abspath(__file__)))

H = "engine_h"
G = "engine_g"
F = "engine_f"

# id -> (engine, design_ref, technique, level category, level text, level note)
CHECKS = {
    "C01": (H, "DESIGN.md section 4 C01",
            "explicit-state BFS over operation histories on the real objects, to fixpoint; invariant on every state",
            "model_checking",
            "All histories of any length of the structure alphabet (constructors incl. ill-typed, v1/v2 "
            "assignment incl. None, explicit.link_*/unlink, add_to_link/remove_from_link, add_vertex/"
            "unlink_from) over each bounded pool are explored on the real code until no new canonical "
            "state appears; the symmetry / no-duplicate invariant is evaluated after every call, "
            "including calls that raised. This is the property's own quantifier (all histories, all "
            "aliasings) on a small scope.",
            "Bounded pools (2-3 vertices + None, <=2-3 links, arity <=3); states merged on the full vars() "
            "of every object (uids dropped) via a 128-bit digest; deepcopy-based successor generation is "
            "validated by re-building every expanded state from its history."),
    "C02": (H, "DESIGN.md section 4 C02",
            "explicit-state BFS over membership-call histories on the real objects, to fixpoint; invariant + ordered reference model on every transition",
            "model_checking",
            "All histories of the four membership calls (from either side) over pools of vertices and universes "
            "(universes are members too, also of themselves) are explored to fixpoint; both constructors with "
            "every argument sequence (repetitions, list/tuple/generator/None) up to a length bound are applied in "
            "every reached state. After every call the symmetry / no-duplicate invariant and equality with the "
            "reference model's insertion-ordered lists are checked; removing a non-member must raise and change nothing.",
            "Bounded pools (<=3 vertices, <=3 universes, <=1 constructed object per history, |S|<=3); quick tier "
            "checks constructor calls as leaf transitions (not expanded further)."),
    "C03": (H, "DESIGN.md section 4 C03 / 3.3",
            "explicit-state BFS to fixpoint; conformance of every transition to a relational reference model",
            "model_checking",
            "Same state graphs as C01 plus pools with universes; for every transition the observed (post-state, "
            "return value), read through public accessors, must be one of the outcomes the plain reference model "
            "allows for (pre-state, op): this is the frame condition (exactly the documented lists change).",
            "Reference model slack documented in DESIGN 3.3 (own-list position on re-assignment; calls on links "
            "with other than two ends are unspecified and only subject to C01). Bounded pools."),
    "C17": (H, "DESIGN.md section 4 C17",
            "explicit-state BFS to fixpoint over construct/add_mapping/drop/clear histories, reference model carried along, every transition replayed from scratch",
            "model_checking",
            "All histories over pools of classes (own metaclass, shared metaclass object, subclasses, custom hash "
            "function) and argument keys (-1/-2, keyword permutations) are explored to fixpoint; per step the "
            "identity of the returned object, its type, the __init__ count and the complete check/get_all table "
            "of every class are compared with a per-class key->instance model.",
            "Bounded pools (<=3 classes, <=6 argument keys); states merged on the real metaclass/class dict "
            "attributes; constructor arguments stored on instances are not part of the state."),
    "C18": (H, "DESIGN.md section 4 C18",
            "explicit-state BFS to fixpoint over construct/clear histories with a reference model",
            "model_checking",
            "All histories of constructions (argument shapes incl. one that makes __init__ raise, a class whose "
            "__init__ constructs another singleton) and targeted/global clears over a class, a subclass chain and "
            "two independent classes; identity, __init__ count, first-call arguments and the live-class table are "
            "compared with the model after every call.",
            "Bounded pool of 4-5 classes and 4-5 argument shapes; the state space is small (which classes are "
            "live), the fixpoint is reached at depth <= 5."),
    "C19": (H, "DESIGN.md section 4 C19",
            "explicit-state BFS to fixpoint over assignment histories; bijection invariant on every state",
            "model_checking",
            "All histories of U.laws = L|None, L.applies_to = U|None and Universe(laws=L|None) over a pool of "
            "universes and law sets: every assignment must succeed and `U.laws is L <=> L.applies_to is U` must "
            "hold in every reached state; plus the complete product of constructor inputs for the rule attributes "
            "(read back exactly, not assignable, before and after binding / moving).",
            "Bounded pool (2 universes + <=2 constructed, <=3 free law sets); UniverseLaws(applies_to=...) is "
            "not in the property's alphabet and is not driven."),
    "C04": (G, "DESIGN.md section 4 C04 / 3.4",
            "exhaustive enumeration of all small ordered multigraphs (construction state graph) x full query-parameter product, against a decision-table oracle",
            "model_checking",
            "Every ordered multigraph with <=3 vertices and <=2-3 links over six link classes (both edge classes, a "
            "subclass of each, TwoEndedLink, another TwoEndedLink subclass; self-loops, parallel edges; every "
            "construction order) is built on the real code; in every state every vertex x 3 directions x 3 unknown "
            "modes x 5 filters is compared with an independent oracle (exact list), and the forward/backward "
            "duality is checked on the real function.",
            "Caching off; ends are vertices. ERROR mode: if the filter rejects every unknown-class link at v, "
            "raising and not raising are both accepted."),
    "C06": (G, "DESIGN.md section 4 C06",
            "exhaustive enumeration of small ordered multigraphs x start x universe x direction x unknown x filter product; reach-set oracle over the real neighbors()",
            "model_checking",
            "For every graph state and every configuration the three traversals' list forms are compared with the "
            "closure of the start under the real neighbors() within the universe (no repetition, starts with the "
            "start, exact set, ff_result only removes entries), generator forms with list forms element by element, "
            "NotImplementedError propagation and termination (expansion budget) are checked.",
            "Small scope: <=3-5 vertices, <=3-4 links; the 5-vertex space uses undirected links on i<j pairs and "
            "the lean configuration product; start is a member of the universe."),
    "C07": (G, "DESIGN.md section 4 C07",
            "same exhaustive enumeration as C06; order oracle = reference BFS / pre-order DFS / explicit-stack DFS over the real neighbors()",
            "model_checking",
            "For every graph state and configuration the list form of bft / dft_recursive / dft_iterative must equal "
            "the canonical order computed by a reference implementation driven by the real neighbors(); bft's hop "
            "distance must be non-decreasing; the same call repeated, and the same graph rebuilt on a fresh pool, "
            "must give the same index sequence.",
            "Same small scope as C06. A violation that reproduces in only some replays (order depending on id()) "
            "is still reported."),
    "C08": (G, "DESIGN.md section 4 C08",
            "exhaustive enumeration of small graphs x vertex classes x all attribute labellings x start x universe x sought value; oracle = first match of the real traversal",
            "model_checking",
            "For every graph state, 3 vertex classes (plain, falsy via __bool__, falsy via __len__), every labelling of "
            "the vertices over {absent, 1000, (1,2)}, every start and universe, sought values that are equal but not "
            "identical to the stored ones, an absent value and an absent attribute name, each search must return the "
            "very object that is the first match in the list its corresponding real traversal returns, or None.",
            "Edge classes of the two edge families only; caching off."),
    "C09": (G, "DESIGN.md section 4 C09",
            "exhaustive enumeration of small ordered multigraphs x ordered pairs x flag/unknown/filter product; set oracle, count relation with neighbors(), unlink on a fresh copy",
            "model_checking",
            "In every graph state every ordered pair (incl. a is b) x direction flag x 3 unknown modes x 4 filters: "
            "find_links vs an independent set oracle, its size vs the multiplicity of b in the real neighbors(a) under "
            "corresponding settings, and after unlink(a,b) on a fresh copy emptiness for that pair and unchanged "
            "answers for every other pair.",
            "Caching off; ends are vertices; same ERROR-mode slack as C04."),
    "C14": (G, "DESIGN.md section 4 C14",
            "exhaustive enumeration of small graphs x vertex-class assignments x membership lists x option tables; output parsed back",
            "model_checking",
            "Every graph state over 4-5 link classes and vertex classes Vertex/VA/VB, every membership list (subsets, "
            "reversed, empty) and two option tables: the text is parsed into declaration and relation multisets and "
            "compared with the members and links (titles, type of the nearest configured class, orientation, arrow ends).",
            "show_attrs restricted to ^i$; relation lines for links leaving the universe are tolerated if "
            "attributable to an existing link attached to a member."),
    "C15": (G, "DESIGN.md section 4 C15",
            "exhaustive enumeration of small graphs x membership lists x rvfunc/refunc; Network nodes/edges compared with the graph",
            "model_checking",
            "Every graph state (directed, undirected and other two-ended links, self-loops, parallel and boundary "
            "links), every membership list, rvfunc/refunc on and off: node ids and labels, the multiset of arrowed "
            "edges, every plain edge, and 'every internal link leaves its node pair joined' are checked.",
            "pyvis merges repeated undirected edges itself; the oracle follows the statement (at least one edge)."),
    "C16": (G, "DESIGN.md section 4 C16",
            "exhaustive enumeration of small graphs x membership lists x rfunc x sort; line-by-line expected text from the real neighbors()",
            "model_checking",
            "Every graph state, every membership list (subsets, permuted, empty), rfunc in {None, <i>}, sort in {None, i, "
            "-i, permutation}: the output must consist of exactly the expected lines in the expected order.",
            "Edge classes of the two edge families; injective sort keys; trailing blanks after the arrow of a "
            "neighbour-less line are tolerated."),
    "C11": ("engine_e", "DESIGN.md section 4 C11",
            "complete enumeration of bounded builder inputs x link types x prior structures; reference-model replay and read-back on every case",
            "model_checking",
            "Every adjacency dict over <=3 vertices (every ordered key selection, every row of length <=2-3 with repeats "
            "and self entries, lists and tuples), every 1x1/2x2 matrix over {0,1,'x',None}, every 3x3 0/1 matrix, side "
            "arrays in order / permuted / with a repeated vertex, and every malformed shape up to 3x3, each x 5 link "
            "types x {no prior structure, a prior link and an older universe}: one builder call on fresh objects, "
            "compared with the documented construction (members in first-mention order, one link of exactly the "
            "requested class per pair in input order, oriented key->value, prior structure untouched), read back "
            "through neighbors()/find_links(); malformed input must raise ValueError and touch nothing.",
            "Inputs bounded as stated; read-back only for link types of the two edge families."),
    "C13": (F, "DESIGN.md section 4 C13",
            "fault enumeration: for every graph state / entry point / callback, a fault at the k-th callback invocation for every k (pairs where swallowed) x 3 exception types x caching on/off",
            "fault_enumeration",
            "Every ordered multigraph of the space x caching flag x membership list x 26 read-only entry-point/"
            "callback pairs x every argument: the fault-free run fixes the invocation count N; then every single "
            "fault position k<=N (and every pair for exceptions the library swallows) x {Boom, AssertionError, "
            "StopIteration} is executed on fresh objects; the complete vars() snapshot of every vertex, link and "
            "universe must be identical before and after, and the healed repeat call on the same objects with the "
            "same wrapper must equal the pristine twin's answer.",
            "The neighbour memo is exempt from the snapshot (C05 covers it); PlantUML lines are compared as a "
            "sorted multiset (set iteration order)."),
    "C20": (F, "DESIGN.md section 4 C20",
            "complete enumeration of the owned random source's answers (count<=4), deviation-bounded (<=2) beyond; postconditions on every execution",
            "model_checking",
            "randgraph's only nondeterminism (random.randint / random.sample) is replaced by a proxy whose every "
            "answer is a choice point; for count 1..4 every answer sequence is executed (every leaf of the choice "
            "tree once), for larger counts the default answers and all 1- and 2-deviations, each x 3 edge types x 5 "
            "connectivities x 2 ensurelink; each execution must return a universe of exactly count vertices "
            "labelled 0..count-1 whose links are of the requested type with both ends members (and every vertex v1 "
            "of a link under ensurelink). A finite seed sweep with the real random module checks reproducibility.",
            "Any use of another random primitive is a harness error; counts above 4 are not exhaustive."),
    "C05": (H, "DESIGN.md section 4 C05",
            "explicit-state BFS to fixpoint over interleavings of mutators, cache-warming queries, flag toggles and pickle round trips (memo contents in the state); differential state invariant; fresh-interpreter leg",
            "model_checking",
            "The neighbour memo of every vertex (including stale contents), the caching flag and the registration bits "
            "are part of the canonical state; ops are every mutator from either object, warm(v) for every vertex, flag "
            "on/off and a pickle round trip. In every reached state, on a throw-away copy, every neighbour key at every "
            "vertex and the three traversals and searches from every start must answer the same with the flag as it "
            "is and with the flag forced off. Every reached state is also dumped with nrpickler and loaded in two "
            "fresh interpreters (flag off / on) that run the same battery.",
            "Bounded pools (2-3 vertices, <=2-3 links); filters are pure; asymmetric structures (C01) are not expanded."),
}


NOT_YET = "check under construction in this session (see DESIGN.md for the planned exhaustive check)"


def main():
    props = [json.loads(l) for l in open(os.path.join(ROOT, "properties.jsonl"))]
    checks = []
    na = []
    for p in props:
        pid = p["id"]
        if pid in CHECKS:
            eng, ref, tech, cat, text, note = CHECKS[pid]
            checks.append({
                "property_id": pid,
                "quick_cmd": f"./check {pid} quick",
                "thorough_cmd": f"./check {pid} thorough",
                "evidence_file": f"/verif/evidence/{pid}.json",
                "replay_cmd_template": "./check replay {path}",
                "engine": eng,
                "level_claimed": {"category": cat, "text": text, "design_ref": ref},
                "level_note": note,
                "technique": tech,
            })
        else:
            na.append({"property_id": pid, "reason": NOT_YET})
    m = {
        "version": 1,
        "setup_cmd": "cd /verif && chmod +x check && ./check selftest --setup",
        "hooks": {
            "guard": "EDGEGRAPH_VERIF",
            "enable": "no source hooks exist: the checks import /repo's working tree "
                      "(PYTHONPATH=/repo, fresh interpreter per check) and drive public seams only; "
                      "./check exports EDGEGRAPH_VERIF=1 for uniformity",
            "baseline_off_cmd": "cd /repo && /venv/bin/python -m pytest -ra -q -p no:cacheprovider "
                                "--timeout=900 --continue-on-collection-errors",
            "source_commits": [],
            "add_only": True,
        },
        "engines": [
            {"name": H, "path": "egmc/engine_h.py",
             "serves_properties": sorted(k for k, v in CHECKS.items() if v[0] == H),
             "kind_free_text": "explicit-state BFS over operation histories on real objects, canonical-state "
                               "deduplication, reference model / invariant on every transition"},
            {"name": G, "path": "egmc/engine_g.py",
             "serves_properties": sorted(k for k, v in CHECKS.items() if v[0] == G),
             "kind_free_text": "exhaustive enumeration of all small ordered multigraphs as a construction "
                               "state graph, property evaluated in every state for the full configuration product"},
            {"name": "engine_e", "path": "egmc/engine_e.py",
             "serves_properties": sorted(k for k, v in CHECKS.items() if v[0] == "engine_e"),
             "kind_free_text": "complete enumeration of a finite case list on the real code, sharded over workers"},
            {"name": F, "path": "egmc/engine_f.py",
             "serves_properties": sorted(k for k, v in CHECKS.items() if v[0] == F),
             "kind_free_text": "deviation-bounded / complete enumeration of environment answers "
                               "(callback fault points, random draws)"},
        ],
        "checks": checks,
        "notes": "All checks run /venv/bin/python on /repo's current working tree; no model separate from the "
                 "code is used (the reference models are plain Python, conformance is checked on every "
                 "transition). Genuine defects found on the pinned tree were repaired by 'fix:' commits in "
                 "/repo and are recorded in known_findings.json.",
        "not_applicable": na,
    }
    with open(os.path.join(ROOT, "MANIFEST.json"), "w") as f:
        json.dump(m, f, indent=1)
    print(f"MANIFEST.json: {len(checks)} checks, {len(na)} not_applicable")


if __name__ == "__main__":
    main()
