#!/venv/bin/python
"""
Seeded property-breaking changes (written by independent sub-agents) kept under /verif/seeded/<id>/.

  tools/seeded.py ingest <id> <property> <worktree>   copy patch.diff / demo.py / NOTES.md out of a scratch worktree
  tools/seeded.py verify <id>                          in a fresh scratch worktree of /repo HEAD: the repository's tests
                                                       pass with the patch, the demo fails with it and passes without it
  tools/seeded.py run <id> [quick|thorough]            git -C /repo apply patch; run ./check <property> <tier>;
                                                       git -C /repo checkout -- .   (always undone, also on error)
  tools/seeded.py runall [quick|thorough]              `run` for every seeded change; prints a table

Nothing here is ever committed to /repo.  Evidence / replay files of these runs go to a scratch directory.
"""
import json
import os
import shutil
import subprocess
import sys
import tempfile

ROOT = os.path.dirname(os.path.dirname(os.path.abspath(__file__)))
SEEDED = os.path.join(ROOT, "seeded")
PY = "/venv/bin/python"


def sh(cmd, **kw):
    return subprocess.run(cmd, capture_output=True, text=True, **kw)


def ingest(sid, prop, wt):
    d = os.path.join(SEEDED, sid)
    os.makedirs(d, exist_ok=True)
    sh(["git", "-C", wt, "add", "-N", "edgegraph"])          # so that new files are part of the diff
    diff = sh(["git", "-C", wt, "diff", "--", "edgegraph"]).stdout
    if not diff.strip():
        sys.exit("no diff under edgegraph/ in " + wt)
    open(os.path.join(d, "patch.diff"), "w").write(diff)
    for f in ("demo.py", "NOTES.md"):
        if os.path.exists(os.path.join(wt, f)):
            shutil.copy(os.path.join(wt, f), os.path.join(d, f))
    meta = {"id": sid, "property": prop, "needs": "", "verified": {}, "detected_by": {}}
    mp = os.path.join(d, "meta.json")
    if os.path.exists(mp):
        old = json.load(open(mp))
        old.update({k: v for k, v in meta.items() if k in ("id", "property")})
        meta = old
    json.dump(meta, open(mp, "w"), indent=1)
    print("ingested", sid, "files:", sorted(os.listdir(d)))


def verify(sid):
    d = os.path.join(SEEDED, sid)
    meta = json.load(open(os.path.join(d, "meta.json")))
    wt = tempfile.mkdtemp(prefix=f"sfv_{sid}_", dir="/tmp")
    os.rmdir(wt)
    try:
        r = sh(["git", "-C", "/repo", "worktree", "add", "--detach", wt, "HEAD"])
        if r.returncode:
            sys.exit(r.stderr)
        env = dict(os.environ, PYTHONPATH=wt, PYTHONDONTWRITEBYTECODE="1")
        shutil.copy(os.path.join(d, "demo.py"), os.path.join(wt, "demo.py"))
        clean = sh([PY, "demo.py"], cwd=wt, env=env)
        ap = sh(["git", "-C", wt, "apply", os.path.join(d, "patch.diff")])
        if ap.returncode:
            sys.exit("patch does not apply: " + ap.stderr)
        broken = sh([PY, "demo.py"], cwd=wt, env=env)
        tests = sh([PY, "-m", "pytest", "-q", "-p", "no:cacheprovider", "--timeout=900"], cwd=wt, env=env)
        summary = [l for l in tests.stdout.splitlines() if " passed" in l or " failed" in l][-1:]
        res = {
            "demo_exit_without_patch": clean.returncode,
            "demo_exit_with_patch": broken.returncode,
            "tests_exit_with_patch": tests.returncode,
            "tests_summary": summary[0] if summary else tests.stdout[-300:],
            "repo_head": sh(["git", "-C", "/repo", "rev-parse", "--short", "HEAD"]).stdout.strip(),
            "commands": [f"cd <worktree> && PYTHONPATH=<worktree> {PY} demo.py   (without and with patch.diff applied)",
                         f"cd <worktree> && PYTHONPATH=<worktree> {PY} -m pytest -q -p no:cacheprovider --timeout=900"],
        }
        res["ok"] = (clean.returncode == 0 and broken.returncode != 0 and tests.returncode == 0)
        meta["verified"] = res
        json.dump(meta, open(os.path.join(d, "meta.json"), "w"), indent=1)
        print(sid, "OK" if res["ok"] else "NOT-OK", res)
        return res["ok"]
    finally:
        sh(["git", "-C", "/repo", "worktree", "remove", "--force", wt])
        shutil.rmtree(wt, ignore_errors=True)


_STOP = []


def _term(signum, frame):
    _STOP.append(signum)          # a sweep (runall) ends after the run in progress has been undone
    raise SystemExit(f"terminated by signal {signum}")


def run(sid, tier="quick", props=None, check_timeout=1800):
    import signal
    signal.signal(signal.SIGTERM, _term)      # so that `finally` below still restores /repo
    d = os.path.join(SEEDED, sid)
    meta = json.load(open(os.path.join(d, "meta.json")))
    props = props or [meta["property"]]
    st = sh(["git", "-C", "/repo", "status", "--porcelain", "--untracked-files=no"]).stdout.strip()
    if st:
        sys.exit("/repo has local modifications; refusing to apply a seeded patch:\n" + st)
    scratch = tempfile.mkdtemp(prefix=f"sfr_{sid}_", dir="/tmp")
    out = {}
    try:
        ap = sh(["git", "-C", "/repo", "apply", os.path.join(d, "patch.diff")])
        if ap.returncode:
            sys.exit("patch does not apply to /repo: " + ap.stderr)
        for prop in props:
            env = dict(os.environ, EGMC_EVIDENCE_DIR=os.path.join(scratch, "ev"),
                       EGMC_REPLAY_DIR=os.path.join(scratch, "rp"))
            try:
                r = subprocess.run([os.path.join(ROOT, "check"), prop, tier], env=env, capture_output=True,
                                   text=True, timeout=check_timeout, start_new_session=True)
            except subprocess.TimeoutExpired as e:
                # kill the whole process group of the check (its worker pool)
                sh(["pkill", "-KILL", "-f", "egmc[.]main " + prop + " " + tier])
                out[prop] = {"verdict": f"timeout>{check_timeout}s", "fingerprints": [], "harness": []}
                continue
            fps = [l.strip()[len("fingerprint: "):] for l in r.stdout.splitlines() if l.strip().startswith("fingerprint:")]
            verdict = {0: "missed", 1: "DETECTED", 2: "harness-error"}.get(r.returncode, f"rc={r.returncode}")
            out[prop] = {"verdict": verdict, "fingerprints": fps[:3],
                         "harness": [l for l in r.stdout.splitlines() if "HARNESS" in l][:1]}
    finally:
        sh(["git", "-C", "/repo", "checkout", "--", "."])
        shutil.rmtree(scratch, ignore_errors=True)
    left = sh(["git", "-C", "/repo", "status", "--porcelain", "--untracked-files=no"]).stdout.strip()
    if left:
        print("WARNING: /repo not clean after undo:", left)
    meta.setdefault("detected_by", {})
    for prop, o in out.items():
        meta["detected_by"][f"{prop}:{tier}"] = o
    json.dump(meta, open(os.path.join(d, "meta.json"), "w"), indent=1)
    for prop, o in out.items():
        print(f"{sid:28s} {prop} {tier:8s} {o['verdict']:10s} {' ; '.join(o['fingerprints'][:2])[:160]} {o['harness']}")
    return out


def run_scratch(sid, tier="quick"):
    """
    Preview: the same check against a scratch copy of HEAD with the patch applied (EDGEGRAPH_REPO), for
    when /repo is busy with another seeded run.  Verdicts recorded in meta.json come from `run` only.
    """
    d = os.path.join(SEEDED, sid)
    meta = json.load(open(os.path.join(d, "meta.json")))
    scratch = tempfile.mkdtemp(prefix=f"sfs_{sid}_", dir="/tmp")
    try:
        subprocess.run(f"git -C /repo archive HEAD edgegraph | tar -x -C {scratch}", shell=True, check=True)
        ap = sh(["patch", "-p1", "-s", "-d", scratch, "-i", os.path.join(d, "patch.diff")])
        if ap.returncode:
            sys.exit("patch does not apply: " + ap.stdout + ap.stderr)
        env = dict(os.environ, EDGEGRAPH_REPO=scratch, EGMC_EVIDENCE_DIR=os.path.join(scratch, "ev"),
                   EGMC_REPLAY_DIR=os.path.join(scratch, "rp"))
        r = subprocess.run([os.path.join(ROOT, "check"), meta["property"], tier], env=env, capture_output=True, text=True)
        fps = [l.strip()[len("fingerprint: "):] for l in r.stdout.splitlines() if l.strip().startswith("fingerprint:")]
        verdict = {0: "missed", 1: "DETECTED", 2: "harness-error"}.get(r.returncode, f"rc={r.returncode}")
        print(f"{sid:28s} {meta['property']} {tier:8s} {verdict:10s} (scratch copy) {' ; '.join(fps[:2])[:200]}")
        if r.returncode == 2:
            print(r.stdout[-1500:])
    finally:
        shutil.rmtree(scratch, ignore_errors=True)


def main():
    a = sys.argv[1:]
    if a[0] == "preview":
        return run_scratch(a[1], a[2] if len(a) > 2 else "quick")
    if a[0] == "ingest":
        ingest(a[1], a[2], a[3])
    elif a[0] == "verify":
        sys.exit(0 if verify(a[1]) else 1)
    elif a[0] == "run":
        tier = a[2] if len(a) > 2 else "quick"
        run(a[1], tier, a[3:] or None)
    elif a[0] == "runall":
        tier = a[1] if len(a) > 1 else "quick"
        for sid in sorted(os.listdir(SEEDED)):
            if len(a) > 2 and sid < a[2]:
                continue                      # runall <tier> <first-id>: resume a sweep
            if os.path.exists(os.path.join(SEEDED, sid, "meta.json")):
                try:
                    run(sid, tier)
                except SystemExit as e:       # e.g. a patch that no longer applies: report, go on
                    print(f"{sid:28s} NOT-RUN {e}")
                    if _STOP:
                        break


if __name__ == "__main__":
    main()
